//! Native companion of the Kani harnesses: runs the *real* pc-keyboard code and the reference models
//! on concrete inputs.  Used by the driver for
//!   * `witness`  - C12 witness search (the solver then verifies the table for a symbolic character),
//!   * `eval`     - line protocol on stdin: evidence samples and re-tests of known findings,
//!   * `validate` - Serval-style validation of the reference models against the repository's own
//!                  test vectors (a disagreement means the *model* is wrong; the driver exits 2),
//!   * `graph`    - reachable-state graphs of the three stages, explored through the public API with
//!                  the structural equality of the verification hooks (state/transition counts).
use pc_keyboard::layouts::*;
use pc_keyboard::*;
use pck_verif::gen_keys::*;
use pck_verif::gen_oracle::*;
use pck_verif::refmodel::*;
use pck_verif::spy::*;
use std::io::{self, BufRead, Write};

fn layout_names() -> [&'static str; 10] {
    ["Us104Key", "Uk105Key", "De105Key", "Azerty", "No105Key", "FiSe105Key", "Jis109Key", "Colemak", "Dvorak104Key", "DVP104Key"]
}

fn map(layout: &str, k: KeyCode, m: &Modifiers, h: HandleControl) -> DecodedKey {
    match layout {
        "Us104Key" => Us104Key.map_keycode(k, m, h),
        "Uk105Key" => Uk105Key.map_keycode(k, m, h),
        "De105Key" => De105Key.map_keycode(k, m, h),
        "Azerty" => Azerty.map_keycode(k, m, h),
        "No105Key" => No105Key.map_keycode(k, m, h),
        "FiSe105Key" => FiSe105Key.map_keycode(k, m, h),
        "Jis109Key" => Jis109Key.map_keycode(k, m, h),
        "Colemak" => Colemak.map_keycode(k, m, h),
        "Dvorak104Key" => Dvorak104Key.map_keycode(k, m, h),
        "DVP104Key" => DVP104Key.map_keycode(k, m, h),
        _ => panic!("unknown layout {}", layout),
    }
}

fn oracle_ok(layout: &str, k: KeyCode, level: u8, c: char) -> Option<bool> {
    match layout {
        "Us104Key" => chars::Us104Key::ok(k, level, c),
        "Uk105Key" => chars::Uk105Key::ok(k, level, c),
        "De105Key" => chars::De105Key::ok(k, level, c),
        "Azerty" => chars::Azerty::ok(k, level, c),
        "No105Key" => chars::No105Key::ok(k, level, c),
        "FiSe105Key" => chars::FiSe105Key::ok(k, level, c),
        "Jis109Key" => chars::Jis109Key::ok(k, level, c),
        "Colemak" => chars::Colemak::ok(k, level, c),
        "Dvorak104Key" => chars::Dvorak104Key::ok(k, level, c),
        "DVP104Key" => chars::DVP104Key::ok(k, level, c),
        _ => panic!("unknown layout {}", layout),
    }
}

fn oracle_first(layout: &str, k: KeyCode, level: u8) -> Option<char> {
    match layout {
        "Us104Key" => chars::Us104Key::first(k, level),
        "Uk105Key" => chars::Uk105Key::first(k, level),
        "De105Key" => chars::De105Key::first(k, level),
        "Azerty" => chars::Azerty::first(k, level),
        "No105Key" => chars::No105Key::first(k, level),
        "FiSe105Key" => chars::FiSe105Key::first(k, level),
        "Jis109Key" => chars::Jis109Key::first(k, level),
        "Colemak" => chars::Colemak::first(k, level),
        "Dvorak104Key" => chars::Dvorak104Key::first(k, level),
        "DVP104Key" => chars::DVP104Key::first(k, level),
        _ => panic!("unknown layout {}", layout),
    }
}

fn js(s: &str) -> String {
    let mut o = String::from("\"");
    for c in s.chars() {
        match c {
            '"' => o.push_str("\\\""),
            '\\' => o.push_str("\\\\"),
            c if (c as u32) < 0x20 || (c as u32) > 0x7e => o.push_str(&format!("\\u{:04x}", c as u32 & 0xffff)),
            c => o.push(c),
        }
    }
    o.push('"');
    o
}

fn dk(d: &DecodedKey) -> String {
    match d {
        DecodedKey::Unicode(c) => format!("Unicode(U+{:04X})", *c as u32),
        DecodedKey::RawKey(k) => format!("RawKey({:?})", k),
    }
}

fn mode_of(s: &str) -> HandleControl {
    if s == "map" || s == "1" {
        HandleControl::MapLettersToUnicode
    } else {
        HandleControl::Ignore
    }
}

fn num(s: &str) -> u32 {
    if let Some(h) = s.strip_prefix("0x") {
        u32::from_str_radix(h, 16).expect("hex")
    } else {
        s.parse().expect("number")
    }
}

fn witness() {
    // for every layout and printable ASCII char: first (key, level) typing it in BOTH Ctrl modes
    print!("{{");
    for (li, l) in layout_names().iter().enumerate() {
        if li > 0 {
            print!(",");
        }
        print!("{}:[", js(l));
        for c in 0x20u8..=0x7E {
            let mut w = (255usize, 0u8);
            'search: for lvl in 0..3u8 {
                for ki in 0..N_KEYS {
                    let m = level_mods(lvl);
                    let a = map(l, ALL_KEYS[ki], &m, HandleControl::Ignore);
                    let b = map(l, ALL_KEYS[ki], &m, HandleControl::MapLettersToUnicode);
                    if a == DecodedKey::Unicode(c as char) && b == a {
                        w = (ki, lvl);
                        break 'search;
                    }
                }
            }
            if c > 0x20 {
                print!(",");
            }
            print!("[{},{}]", w.0, w.1);
        }
        print!("]");
    }
    println!("}}");
}

fn ctx2n(i: u8) -> ScancodeSet2 {
    let mut s = ScancodeSet2::new();
    for b in SET2_CTX_PREFIX[i as usize] {
        let _ = s.advance_state(*b);
    }
    s
}
fn ctx1n(i: u8) -> ScancodeSet1 {
    let mut s = ScancodeSet1::new();
    for b in SET1_CTX_PREFIX[i as usize] {
        let _ = s.advance_state(*b);
    }
    s
}
fn set2_ctx(p: u8, brk: bool) -> u8 {
    match (p, brk) {
        (0, false) => 0,
        (0, true) => 2,
        (1, false) => 1,
        (1, true) => 3,
        (_, false) => 4,
        (_, true) => 5,
    }
}
fn is_key_event(r: &ScanResult) -> bool {
    matches!(r, Ok(Some(ev)) if ev.state != KeyState::SingleShot)
}

fn eval() {
    let stdin = io::stdin();
    let out = io::stdout();
    let mut out = out.lock();
    for line in stdin.lock().lines() {
        let line = line.unwrap();
        let f: Vec<&str> = line.split_whitespace().collect();
        if f.is_empty() {
            continue;
        }
        let r = match f[0] {
            // set2 <ctx> <byte>
            "set2" => {
                let (i, b) = (num(f[1]) as u8, num(f[2]) as u8);
                let mut s = ctx2n(i);
                let got = s.advance_state(b);
                let (want, next) = ref_set2_step(i, b);
                format!("{{\"op\":\"set2\",\"ctx\":{},\"byte\":{},\"got\":{},\"want\":{},\"ok\":{},\"next_ok\":{}}}", i, b, js(&format!("{:?}", got)), js(&format!("{:?}", want.a)), want.accepts(&got), s == ctx2n(next))
            }
            "set1" => {
                let (i, b) = (num(f[1]) as u8, num(f[2]) as u8);
                let mut s = ctx1n(i);
                let got = s.advance_state(b);
                let (want, next) = ref_set1_step(i, b);
                format!("{{\"op\":\"set1\",\"ctx\":{},\"byte\":{},\"got\":{},\"want\":{},\"ok\":{},\"next_ok\":{}}}", i, b, js(&format!("{:?}", got)), js(&format!("{:?}", want.a)), want.accepts(&got), s == ctx1n(next))
            }
            // xlatf <p> <set2 code> <brk>
            "xlatf" => {
                let (p, c, brk) = (num(f[1]) as u8, num(f[2]) as u8, num(f[3]) != 0);
                let t = XLAT[c as usize];
                let e2 = ctx2n(set2_ctx(p, brk)).advance_state(c);
                let b1 = t | if brk { 0x80 } else { 0 };
                let e1 = ctx1n(p).advance_state(b1);
                let ok = t == 0xFF || !is_key_event(&e2) || e1 == e2;
                format!("{{\"op\":\"xlatf\",\"prefix\":{},\"set2_code\":{},\"break\":{},\"set2\":{},\"set1_byte\":{},\"set1\":{},\"ok\":{}}}", p, c, brk, js(&format!("{:?}", e2)), b1, js(&format!("{:?}", e1)), ok)
            }
            "xlatb" => {
                let (p, t, brk) = (num(f[1]) as u8, num(f[2]) as u8, num(f[3]) != 0);
                let b1 = t | if brk { 0x80 } else { 0 };
                let e1 = ctx1n(p).advance_state(b1);
                let mut matched = false;
                for c in XLAT_INV[(t & 0x7f) as usize] {
                    if c != 0xFF && ctx2n(set2_ctx(p, brk)).advance_state(c) == e1 {
                        matched = true;
                    }
                }
                let ok = !is_key_event(&e1) || matched;
                format!("{{\"op\":\"xlatb\",\"prefix\":{},\"set1_code\":{},\"break\":{},\"set1\":{},\"matched\":{},\"ok\":{}}}", p, t, brk, js(&format!("{:?}", e1)), matched, ok)
            }
            // map <layout> <key index> <modifier bits> <mode>
            "map" => {
                let k = ALL_KEYS[num(f[2]) as usize % N_KEYS];
                let m = mods_from_bits(num(f[3]));
                let h = mode_of(f[4]);
                let o = map(f[1], k, &m, h);
                let lvl = level_of(&m);
                let want = lvl.and_then(|l| oracle_first(f[1], k, l));
                format!("{{\"op\":\"map\",\"layout\":{},\"key\":{},\"mods\":{},\"mode\":{},\"out\":{},\"oracle_level\":{},\"oracle_char\":{}}}", js(f[1]), js(key_name(k)), num(f[3]), js(&format!("{:?}", h)), js(&dk(&o)), lvl.map_or("null".to_string(), |l| l.to_string()), want.map_or("null".to_string(), |c| js(&format!("U+{:04X}", c as u32))))
            }
            // frame <word>
            "frame" => {
                let w = num(f[1]) as u16;
                let got = Ps2Decoder::new().add_word(w);
                let want = ref_frame(w & 0x7ff);
                format!("{{\"op\":\"frame\",\"word\":{},\"got\":{},\"want\":{},\"ok\":{}}}", w, js(&format!("{:?}", got)), js(&format!("{:?}", want)), got == want || w >= 2048)
            }
            // bits <word> : shift the 11 bits in serially
            "bits" => {
                let w = num(f[1]) as u16;
                let mut d = Ps2Decoder::new();
                let mut last = Ok(None);
                let mut early = false;
                for i in 0..11 {
                    last = d.add_bit((w >> i) & 1 != 0);
                    if i < 10 && last != Ok(None) {
                        early = true;
                    }
                }
                let want = ref_frame(w & 0x7ff).map(Some);
                format!("{{\"op\":\"bits\",\"word\":{},\"got\":{},\"want\":{},\"ok\":{}}}", w, js(&format!("{:?}", last)), js(&format!("{:?}", want)), last == want && !early && d == Ps2Decoder::new())
            }
            // modstep <modifier bits> <key index> <state 0 up,1 down,2 single> <mode>
            "modstep" => {
                let m = mods_from_bits(num(f[1]));
                let k = ALL_KEYS[num(f[2]) as usize % N_KEYS];
                let st = match num(f[3]) {
                    0 => KeyState::Up,
                    1 => KeyState::Down,
                    _ => KeyState::SingleShot,
                };
                let h = mode_of(f[4]);
                let calls = std::cell::Cell::new(0);
                let mut kb = Keyboard::new(ScancodeSet2::new(), Spy { tag: false, calls: &calls }, h);
                for (cond, key) in [(!m.numlock, KeyCode::NumpadLock), (m.capslock, KeyCode::CapsLock), (m.lshift, KeyCode::LShift), (m.rshift, KeyCode::RShift), (m.lctrl, KeyCode::LControl), (m.rctrl, KeyCode::RControl), (m.lalt, KeyCode::LAlt), (m.ralt, KeyCode::RAltGr), (m.rctrl2, KeyCode::RControl2)] {
                    if cond {
                        kb.process_keyevent(KeyEvent::new(key, KeyState::Down));
                    }
                }
                let reached = *kb.get_modifiers() == m;
                let out = kb.process_keyevent(KeyEvent::new(k, st));
                let want = spec_next(&m, k, st);
                format!("{{\"op\":\"modstep\",\"mods\":{},\"key\":{},\"state\":{},\"out\":{},\"after\":{},\"want\":{},\"ok\":{}}}", num(f[1]), js(key_name(k)), js(&format!("{:?}", st)), js(&format!("{:?}", out.map(|d| dk(&d)))), mod_bits(kb.get_modifiers()), mod_bits(&want), reached && *kb.get_modifiers() == want)
            }
            other => format!("{{\"error\":{}}}", js(other)),
        };
        writeln!(out, "{}", r).unwrap();
    }
}

/// The repository's own test vectors (src/lib.rs mod test, layouts/*/test), transcribed; the
/// reference models must agree with every one of them.
fn validate() -> i32 {
    let mut bad = 0;
    let mut n = 0;
    let mut chk = |what: &str, ok: bool| {
        n += 1;
        if !ok {
            bad += 1;
            println!("MODEL-MISMATCH {}", what);
        }
    };
    use KeyCode as K;
    use KeyState::*;
    let ev = |k, s| Some(KeyEvent::new(k, s));
    // (set, bytes with expected events)
    let set2: Vec<Vec<(u8, Option<KeyEvent>)>> = vec![
        vec![(0x01, ev(K::F9, Down))],
        vec![(0x01, ev(K::F9, Down)), (0x01, ev(K::F9, Down)), (0xF0, None), (0x01, ev(K::F9, Up))],
        vec![(0xF0, None), (0x03, ev(K::F5, Up))],
        vec![(0xAA, ev(K::PowerOnTestOk, SingleShot))],
        vec![(0x00, ev(K::TooManyKeys, SingleShot))],
        vec![(0x29, ev(K::Spacebar, Down)), (0xF0, None), (0x29, ev(K::Spacebar, Up))],
        vec![(0xE0, None), (0x6C, ev(K::Home, Down)), (0xE0, None), (0xF0, None), (0x6C, ev(K::Home, Up))],
        vec![(0xE1, None), (0x14, ev(K::RControl2, Down)), (0x77, ev(K::NumpadLock, Down)), (0xE1, None), (0xF0, None), (0x14, ev(K::RControl2, Up)), (0xF0, None), (0x77, ev(K::NumpadLock, Up))],
        vec![(0xE0, None), (0x12, ev(K::RAlt2, Down)), (0xE0, None), (0x7C, ev(K::PrintScreen, Down)), (0xE0, None), (0xF0, None), (0x7C, ev(K::PrintScreen, Up)), (0xE0, None), (0xF0, None), (0x12, ev(K::RAlt2, Up))],
    ];
    for seq in &set2 {
        let mut c = 0u8;
        for (b, want) in seq {
            let (e, next) = ref_set2_step(c, *b);
            chk(&format!("set2 ctx {} byte {:#04x}", c, b), e.accepts(&Ok(want.clone())));
            c = next;
        }
    }
    let set1: Vec<Vec<(u8, Option<KeyEvent>)>> = vec![
        vec![(0x1e, ev(K::A, Down)), (0x9e, ev(K::A, Up)), (0x1f, ev(K::S, Down))],
        vec![(0xe0, None), (0x1c, ev(K::NumpadEnter, Down)), (0xe0, None), (0x9c, ev(K::NumpadEnter, Up))],
        vec![(0xE1, None), (0x1D, ev(K::RControl2, Down)), (0x45, ev(K::NumpadLock, Down)), (0xE1, None), (0x9D, ev(K::RControl2, Up)), (0xC5, ev(K::NumpadLock, Up))],
        vec![(0xE0, None), (0x2A, ev(K::RAlt2, Down)), (0xE0, None), (0x37, ev(K::PrintScreen, Down)), (0xE0, None), (0xB7, ev(K::PrintScreen, Up)), (0xE0, None), (0xAA, ev(K::RAlt2, Up))],
    ];
    for seq in &set1 {
        let mut c = 0u8;
        for (b, want) in seq {
            let (e, next) = ref_set1_step(c, *b);
            chk(&format!("set1 ctx {} byte {:#04x}", c, b), e.accepts(&Ok(want.clone())));
            c = next;
        }
    }
    // frames: test_f9_word (0x0402 -> byte 0x01), the bit sequences of test_f9 / test_f5 / test_f5_up
    chk("frame 0x0402", ref_frame(0x0402) == Ok(0x01));
    chk("frame F5", ref_frame(encode_frame(0x03)) == Ok(0x03) && encode_frame(0x03) == 0b11000000110);
    chk("frame F0", encode_frame(0xF0) == 0b11111100000);
    chk("frame F9", encode_frame(0x01) == 0x0402);
    // modifier step: test_shift / test_ctrl / test_numlock / test_pause_events / test_modifier_state_shift
    let mut m = spec_initial();
    chk("initial numlock", m.numlock && !m.capslock && !m.lshift);
    m = spec_next(&m, K::LShift, Down);
    chk("lshift down", m.lshift && r_shift(&m) && r_caps(&m));
    m = spec_next(&m, K::LShift, Up);
    chk("lshift up", !m.lshift);
    m = spec_next(&m, K::CapsLock, Down);
    m = spec_next(&m, K::CapsLock, Up);
    chk("caps toggled once", m.capslock && r_caps(&m));
    m = spec_next(&m, K::RShift, Down);
    chk("caps+shift = lower", !r_caps(&m));
    let mut p = spec_initial();
    p = spec_next(&p, K::RControl2, Down);
    p = spec_next(&p, K::NumpadLock, Down);
    chk("pause does not toggle numlock", p.numlock && p.rctrl2);
    p = spec_next(&p, K::RControl2, Up);
    p = spec_next(&p, K::NumpadLock, Up);
    chk("after pause", p == spec_initial());
    let mut q = spec_initial();
    q = spec_next(&q, K::NumpadLock, Down);
    chk("numlock off", !q.numlock);
    // character oracles vs. the repo's layout tests (uk105 / us104 / azerty test tables, excerpts)
    chk("uk 3 shift", chars::Uk105Key::ok(K::Key3, 1, '£') == Some(true));
    chk("uk hash", chars::Uk105Key::ok(K::Oem7, 0, '#') == Some(true) && chars::Uk105Key::ok(K::Oem7, 1, '~') == Some(true));
    chk("uk backslash/pipe", chars::Uk105Key::ok(K::Oem5, 0, '\\') == Some(true) && chars::Uk105Key::ok(K::Oem5, 1, '|') == Some(true));
    chk("us backtick", chars::Us104Key::ok(K::Oem8, 0, '`') == Some(true));
    chk("azerty q->a", chars::Azerty::ok(K::Q, 0, 'a') == Some(true));
    chk("de altgr q", chars::De105Key::ok(K::Q, 2, '@') == Some(true));
    // i8042: spot rows of the README conversion table
    chk("xlat A", XLAT[0x1C] == 0x1E);
    chk("xlat F7", XLAT[0x83] == 0x41);
    chk("xlat Esc", XLAT[0x76] == 0x01);
    println!("{{\"validated\":{},\"mismatches\":{}}}", n, bad);
    if bad > 0 {
        1
    } else {
        0
    }
}

/// Reachable-state graphs through the public API (BFS with the hooks' structural equality).
fn graph() {
    // Set 2 / Set 1 scancode decoders
    fn bfs<S: ScancodeSet + Clone + PartialEq>(init: S) -> (usize, usize) {
        let mut states = vec![init];
        let mut i = 0;
        let mut trans = 0;
        while i < states.len() {
            for b in 0..=255u8 {
                let mut s = states[i].clone();
                let _ = s.advance_state(b);
                trans += 1;
                if !states.iter().any(|x| *x == s) {
                    states.push(s);
                }
            }
            i += 1;
        }
        (states.len(), trans)
    }
    let (s2, t2) = bfs(ScancodeSet2::new());
    let (s1, t1) = bfs(ScancodeSet1::new());
    // frame decoder
    let mut fs = vec![Ps2Decoder::new()];
    let mut i = 0;
    let mut ft = 0;
    while i < fs.len() {
        for b in [false, true] {
            let mut d = fs[i].clone();
            let _ = d.add_bit(b);
            ft += 1;
            if !fs.iter().any(|x| *x == d) {
                fs.push(d);
            }
        }
        i += 1;
    }
    // event decoder (modifier records x mode), observed through Keyboard::get_modifiers
    let calls = std::cell::Cell::new(0);
    let mut es: Vec<EventDecoder<Spy>> = vec![
        EventDecoder::new(Spy { tag: false, calls: &calls }, HandleControl::Ignore),
        EventDecoder::new(Spy { tag: false, calls: &calls }, HandleControl::MapLettersToUnicode),
    ];
    let mut i = 0;
    let mut et = 0;
    while i < es.len() {
        for k in ALL_KEYS.iter() {
            for st in [KeyState::Up, KeyState::Down, KeyState::SingleShot] {
                let mut d = es[i].clone();
                let _ = d.process_keyevent(KeyEvent::new(*k, st));
                et += 1;
                if !es.iter().any(|x| *x == d) {
                    es.push(d);
                }
            }
        }
        i += 1;
    }
    println!("{{\"set2\":{{\"states\":{},\"transitions\":{}}},\"set1\":{{\"states\":{},\"transitions\":{}}},\"frame\":{{\"states\":{},\"transitions\":{}}},\"event\":{{\"states\":{},\"transitions\":{}}},\"keys\":{}}}", s2, t2, s1, t1, fs.len(), ft, es.len(), et, N_KEYS);
}

fn main() {
    let a: Vec<String> = std::env::args().collect();
    let code = match a.get(1).map(|s| s.as_str()) {
        Some("witness") => {
            witness();
            0
        }
        Some("eval") => {
            eval();
            0
        }
        Some("validate") => validate(),
        Some("graph") => {
            graph();
            0
        }
        _ => {
            eprintln!("usage: native witness|eval|validate|graph");
            2
        }
    };
    std::process::exit(code);
}
