//! C01 (Set 2) and C02 (Set 1): every (prefix context, byte) transition of the real decoder equals
//! the reference automaton generated from the oracle table, and the contexts are closed.
use crate::gen_known::*;
use crate::refmodel::*;
use crate::sym::*;
use pc_keyboard::*;

/// Is `s` structurally equal to the canonical Set 2 context `j`?
fn is_ctx2(s: &ScancodeSet2, j: u8) -> bool {
    *s == ctx2(j)
}
fn is_ctx1(s: &ScancodeSet1, j: u8) -> bool {
    *s == ctx1(j)
}

fn c01_step(i: u8) {
    let b: u8 = kani::any();
    let mut s = ctx2(i);
    let got = s.advance_state(b);
    let (want, next) = ref_set2_step(i, b);
    crate::show!("C01 set2 ctx={} byte={:#04x} got={:?} want={:?} next_ctx={}", i, b, got, want, next);
    assert!(want.accepts(&got), "C01: Set 2 transition differs from the standard table");
    assert!(is_ctx2(&s, next), "C01 closure: Set 2 decoder is not in the expected canonical prefix context (state identity)");
    kani::cover!(matches!(got, Ok(Some(_))));
    kani::cover!(got.is_err());
}

macro_rules! c01_ctx {
    ($name:ident, $i:expr) => {
        #[kani::proof]
        pub fn $name() {
            c01_step($i);
        }
    };
}
c01_ctx!(c01_q_set2_ctx0_plain, 0);
c01_ctx!(c01_q_set2_ctx1_e0, 1);
c01_ctx!(c01_q_set2_ctx2_f0, 2);
c01_ctx!(c01_q_set2_ctx3_e0f0, 3);
c01_ctx!(c01_q_set2_ctx4_e1, 4);
c01_ctx!(c01_q_set2_ctx5_e1f0, 5);

/// C01 through Keyboard::add_byte (symbolic context, symbolic byte).
#[kani::proof]
pub fn c01_q_set2_keyboard_add_byte() {
    let i: u8 = kani::any();
    kani::assume(i < SET2_CONTEXTS);
    let b: u8 = kani::any();
    let calls = core::cell::Cell::new(0);
    let mut kb = Keyboard::new(ctx2(i), crate::spy::Spy { tag: false, calls: &calls }, HandleControl::Ignore);
    let got = kb.add_byte(b);
    let (want, next) = ref_set2_step(i, b);
    crate::show!("C01 keyboard set2 ctx={} byte={:#04x} got={:?} want={:?}", i, b, got, want);
    assert!(want.accepts(&got), "C01: Keyboard::add_byte differs from the standard table");
    assert!(is_ctx2(kb.verif_stages().1, next), "C01 closure: Keyboard scancode stage not in the expected canonical context");
    kani::cover!(matches!(got, Ok(Some(_))));
}

/// C01 thorough: four symbolic bytes from new() (all 2^32 streams) in lock-step with the
/// reference automaton; independent of the induction argument.
#[kani::proof]
pub fn c01_t_set2_stream4() {
    let mut s = ScancodeSet2::new();
    let mut c = 0u8;
    let mut n = 0u8;
    while n < 4 {
        let b: u8 = kani::any();
        let got = s.advance_state(b);
        let (want, next) = ref_set2_step(c, b);
        crate::show!("C01 stream byte#{}={:#04x} ctx={} got={:?} want={:?}", n, b, c, got, want);
        assert!(want.accepts(&got), "C01: stream output differs from the standard table");
        c = next;
        n += 1;
    }
    assert!(is_ctx2(&s, c), "C01 closure: state after four bytes is not the expected canonical context");
    kani::cover!(c == 5);
}

fn c02_step(i: u8) {
    let b: u8 = kani::any();
    // Open known findings (listed in /verif/known_findings.json) are excluded here and re-tested
    // concretely by the driver; any other disagreement is a violation.
    kani::assume(!known_set1_transition(i, b));
    let mut s = ctx1(i);
    let got = s.advance_state(b);
    let (want, next) = ref_set1_step(i, b);
    crate::show!("C02 set1 ctx={} byte={:#04x} got={:?} want={:?} next_ctx={}", i, b, got, want, next);
    assert!(want.accepts(&got), "C02: Set 1 transition differs from the standard table");
    assert!(is_ctx1(&s, next), "C02 closure: Set 1 decoder is not in the expected canonical prefix context (state identity)");
    kani::cover!(matches!(got, Ok(Some(_))));
    kani::cover!(got.is_err());
}

macro_rules! c02_ctx {
    ($name:ident, $i:expr) => {
        #[kani::proof]
        pub fn $name() {
            c02_step($i);
        }
    };
}
c02_ctx!(c02_q_set1_ctx0_plain, 0);
c02_ctx!(c02_q_set1_ctx1_e0, 1);
c02_ctx!(c02_q_set1_ctx2_e1, 2);

#[kani::proof]
pub fn c02_q_set1_keyboard_add_byte() {
    let i: u8 = kani::any();
    kani::assume(i < SET1_CONTEXTS);
    let b: u8 = kani::any();
    kani::assume(!known_set1_transition(i, b));
    let calls = core::cell::Cell::new(0);
    let mut kb = Keyboard::new(ctx1(i), crate::spy::Spy { tag: false, calls: &calls }, HandleControl::Ignore);
    let got = kb.add_byte(b);
    let (want, next) = ref_set1_step(i, b);
    crate::show!("C02 keyboard set1 ctx={} byte={:#04x} got={:?} want={:?}", i, b, got, want);
    assert!(want.accepts(&got), "C02: Keyboard::add_byte differs from the standard table");
    assert!(is_ctx1(kb.verif_stages().1, next), "C02 closure: Keyboard scancode stage not in the expected canonical context");
    kani::cover!(matches!(got, Ok(Some(_))));
}

/// C02 thorough: four symbolic bytes from new() in lock-step with the reference automaton.
#[kani::proof]
pub fn c02_t_set1_stream4() {
    let mut s = ScancodeSet1::new();
    let mut c = 0u8;
    let mut n = 0u8;
    while n < 4 {
        let b: u8 = kani::any();
        kani::assume(!known_set1_transition(c, b));
        let got = s.advance_state(b);
        let (want, next) = ref_set1_step(c, b);
        crate::show!("C02 stream byte#{}={:#04x} ctx={} got={:?} want={:?}", n, b, c, got, want);
        assert!(want.accepts(&got), "C02: stream output differs from the standard table");
        c = next;
        n += 1;
    }
    assert!(is_ctx1(&s, c), "C02 closure: state after four bytes is not the expected canonical context");
    kani::cover!(c == 2);
}
