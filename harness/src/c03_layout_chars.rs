//! C03: each layout types the characters of the national layout it is named after.
use crate::gen_oracle::{chars, CharOracle};
use crate::refmodel::*;
use crate::sym::*;
use pc_keyboard::layouts::*;
use pc_keyboard::*;

/// One symbolic evaluation of `l` against its oracle `O`.
/// `caps`: false = CapsLock off (quick tier); true = CapsLock symbolic, with the expectation that
/// a letter cell may show either of its two legends (which one is C10's business).
pub fn c03_check<L: KeyboardLayout, O: CharOracle>(name: &str, l: &L, caps: bool) {
    let k = any_key();
    let m = any_mods();
    let h = any_mode();
    if !caps {
        kani::assume(!m.capslock);
    }
    // "Ctrl not being mapped"
    kani::assume(!(h == HandleControl::MapLettersToUnicode && r_ctrl(&m)));
    let level = level_of(&m);
    kani::assume(level.is_some());
    let mut level = level.unwrap_or(0);
    let out = l.map_keycode(k, &m, h);
    crate::show!("C03 {} key={:?} mods={:?} mode={:?} level={} out={:?}", name, k, m, h, level, out);
    if level < 2 {
        // With CapsLock on, a letter cell may show either of its two legends (which one is C10's
        // business, not C03's); every other cell shows the legend of the level selected by Shift.
        let either = m.capslock && O::letter_cell(k);
        match out {
            DecodedKey::Unicode(c) => {
                if either {
                    assert!(O::ok(k, 0, c) == Some(true) || O::ok(k, 1, c) == Some(true), "C03: character differs from the national layout standard (CapsLock on)");
                } else if let Some(ok) = O::ok(k, level, c) {
                    assert!(ok, "C03: character differs from the national layout standard");
                }
            }
            DecodedKey::RawKey(_) => {
                assert!(O::ok(k, level, '\0').is_none(), "C03: character key produced a raw key code");
            }
        }
        kani::cover!(level == 1 && matches!(out, DecodedKey::Unicode(_)));
    } else {
        // AltGr level: compare with the output under the same flags with both Alt keys released.
        let mut mb = m.clone();
        mb.ralt = false;
        mb.lalt = false;
        let base = l.map_keycode(k, &mb, h);
        // "in every modifier state that selects that level": if the key has a distinct AltGr character
        // under plain AltGr, every other way of selecting the AltGr level must give the standard's
        // AltGr character too (it may not silently fall back to the base level)
        let canon = l.map_keycode(k, &level_mods(2), h);
        let canon_base = l.map_keycode(k, &level_mods(0), h);
        if canon != canon_base {
            match out {
                DecodedKey::Unicode(c) => assert!(O::ok(k, 2, c) == Some(true), "C03: a modifier state selecting the AltGr level does not give the key's AltGr character"),
                DecodedKey::RawKey(_) => assert!(false, "C03: AltGr level turned a character key into a raw key"),
            }
        }
        if out != base {
            match out {
                DecodedKey::Unicode(c) => {
                    assert!(O::ok(k, 2, c) == Some(true), "C03: distinct AltGr character is not the standard's AltGr character for that key");
                }
                DecodedKey::RawKey(_) => {
                    assert!(false, "C03: AltGr turned a character key into a raw key");
                }
            }
        }
    }
    kani::cover!(true);
}

/// Thorough, end to end: a symbolic character key is turned into its Set 2 (or Set 1) byte sequence
/// by the reference table, fed to a Keyboard after a symbolic level-selecting modifier was pressed
/// the same way, and the decoded character is checked against the same oracle.
pub fn c03_e2e<L: KeyboardLayout, O: CharOracle>(name: &str, layout: L, set2: bool) {
    use crate::gen_oracle::{ref_set1_seq, ref_set2_seq};
    let h = any_mode();
    let k = any_key();
    kani::assume(!is_modifier_key(k));
    let level: u8 = kani::any();
    kani::assume(level < 3);
    let modkey = match level {
        0 => None,
        1 => Some(if kani::any() { KeyCode::LShift } else { KeyCode::RShift }),
        _ => Some(KeyCode::RAltGr),
    };
    let seq_of = |key: KeyCode| if set2 { ref_set2_seq(key) } else { ref_set1_seq(key) };
    let kseq = seq_of(k);
    kani::assume(kseq.is_some());
    let (kp, kc) = kseq.unwrap_or((0, 0));
    // open known findings (Set 1 JIS keys) are excluded here exactly as in C02
    kani::assume(set2 || !crate::gen_known::known_set1_transition(kp, kc));
    let out;
    if set2 {
        let mut kb = Keyboard::new(ScancodeSet2::new(), layout, h);
        if let Some(mk) = modkey {
            let (mp, mc) = ref_set2_seq(mk).unwrap_or((0, 0));
            if mp == 1 {
                let _ = kb.add_byte(0xE0);
            }
            if let Ok(Some(ev)) = kb.add_byte(mc) {
                let _ = kb.process_keyevent(ev);
            }
        }
        if kp == 1 {
            let _ = kb.add_byte(0xE0);
        } else if kp == 2 {
            let _ = kb.add_byte(0xE1);
        }
        out = match kb.add_byte(kc) {
            Ok(Some(ev)) => kb.process_keyevent(ev),
            _ => None,
        };
    } else {
        let mut kb = Keyboard::new(ScancodeSet1::new(), layout, h);
        if let Some(mk) = modkey {
            let (mp, mc) = ref_set1_seq(mk).unwrap_or((0, 0));
            if mp == 1 {
                let _ = kb.add_byte(0xE0);
            }
            if let Ok(Some(ev)) = kb.add_byte(mc) {
                let _ = kb.process_keyevent(ev);
            }
        }
        if kp == 1 {
            let _ = kb.add_byte(0xE0);
        } else if kp == 2 {
            let _ = kb.add_byte(0xE1);
        }
        out = match kb.add_byte(kc) {
            Ok(Some(ev)) => kb.process_keyevent(ev),
            _ => None,
        };
    }
    crate::show!("C03 e2e {} set{} key={:?} seq=({},{:#04x}) level={} mode={:?} out={:?}", name, if set2 { 2 } else { 1 }, k, kp, kc, level, h, out);
    if level < 2 {
        if O::ok(k, level, '\0').is_some() {
            match out {
                Some(DecodedKey::Unicode(c)) => assert!(O::ok(k, level, c) == Some(true), "C03: end-to-end character differs from the national layout standard"),
                _ => assert!(false, "C03: end-to-end - character key did not produce a character"),
            }
        }
    } else if let Some(DecodedKey::Unicode(c)) = out {
        // AltGr level: either the key has no AltGr character (then it types what it types without AltGr) or the standard's
        if O::ok(k, 2, c) != Some(true) {
            assert!(O::ok(k, 0, c) != Some(false), "C03: end-to-end AltGr character is neither the standard's AltGr nor the base character");
        }
    }
    kani::cover!(level == 2 && matches!(out, Some(DecodedKey::Unicode(_))));
}

macro_rules! c03_layout {
    ($short:ident, $ty:ident) => {
        pub mod $short {
            use super::*;
            #[kani::proof]
            pub fn c03_q_chars() {
                c03_check::<_, chars::$ty>(stringify!($ty), &$ty, false);
            }
            #[kani::proof]
            pub fn c03_t_caps() {
                c03_check::<_, chars::$ty>(stringify!($ty), &$ty, true);
            }
            #[kani::proof]
            pub fn c03_q_any() {
                c03_check::<_, chars::$ty>(concat!("AnyLayout::", stringify!($ty)), &AnyLayout::$ty($ty), true);
            }
            #[kani::proof]
            pub fn c03_t_e2e_set2() {
                c03_e2e::<_, chars::$ty>(stringify!($ty), $ty, true);
            }
            #[kani::proof]
            pub fn c03_t_e2e_set1() {
                c03_e2e::<_, chars::$ty>(stringify!($ty), $ty, false);
            }
            #[kani::proof]
            pub fn c03_q_anyref() {
                let a = AnyLayout::$ty($ty);
                c03_check::<_, chars::$ty>(concat!("&AnyLayout::", stringify!($ty)), &&a, true);
            }
        }
    };
}

crate::for_layouts!(c03_layout);
