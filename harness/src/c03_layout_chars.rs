//! C03: each layout types the characters of the national layout it is named after.
use crate::gen_oracle::{chars, CharOracle};
use crate::refmodel::*;
use crate::sym::*;
use pc_keyboard::layouts::*;
use pc_keyboard::*;

/// One symbolic evaluation of `l` against its oracle `O`.
/// `caps`: false = CapsLock off (quick tier); true = CapsLock symbolic, with the expectation that
/// CapsLock swaps base/shift exactly on letter cells (the C10 reading of "whatever the lock flags").
pub fn c03_check<L: KeyboardLayout, O: CharOracle>(name: &str, l: &L, caps: bool) {
    let k = any_key();
    let m = any_mods();
    let h = any_mode();
    if !caps {
        kani::assume(!m.capslock);
    }
    // "Ctrl not being mapped"
    kani::assume(!(h == HandleControl::MapLettersToUnicode && r_ctrl(&m)));
    let level = level_of(&m);
    kani::assume(level.is_some());
    let mut level = level.unwrap_or(0);
    let out = l.map_keycode(k, &m, h);
    crate::show!("C03 {} key={:?} mods={:?} mode={:?} level={} out={:?}", name, k, m, h, level, out);
    if level < 2 {
        if m.capslock && O::letter_cell(k) {
            level = 1 - level;
        }
        match out {
            DecodedKey::Unicode(c) => {
                if let Some(ok) = O::ok(k, level, c) {
                    assert!(ok, "C03: character differs from the national layout standard");
                }
            }
            DecodedKey::RawKey(_) => {
                assert!(O::ok(k, level, '\0').is_none(), "C03: character key produced a raw key code");
            }
        }
        kani::cover!(level == 1 && matches!(out, DecodedKey::Unicode(_)));
    } else {
        // AltGr level: compare with the output under the same flags with both Alt keys released.
        let mut mb = m.clone();
        mb.ralt = false;
        mb.lalt = false;
        let base = l.map_keycode(k, &mb, h);
        if out != base {
            match out {
                DecodedKey::Unicode(c) => {
                    assert!(O::ok(k, 2, c) == Some(true), "C03: distinct AltGr character is not the standard's AltGr character for that key");
                }
                DecodedKey::RawKey(_) => {
                    assert!(false, "C03: AltGr turned a character key into a raw key");
                }
            }
        }
    }
    kani::cover!(true);
}

macro_rules! c03_layout {
    ($short:ident, $ty:ident) => {
        pub mod $short {
            use super::*;
            #[kani::proof]
            pub fn c03_q_chars() {
                c03_check::<_, chars::$ty>(stringify!($ty), &$ty, false);
            }
            #[kani::proof]
            pub fn c03_t_caps() {
                c03_check::<_, chars::$ty>(stringify!($ty), &$ty, true);
            }
            #[kani::proof]
            pub fn c03_t_any() {
                c03_check::<_, chars::$ty>(concat!("AnyLayout::", stringify!($ty)), &AnyLayout::$ty($ty), true);
            }
            #[kani::proof]
            pub fn c03_t_anyref() {
                let a = AnyLayout::$ty($ty);
                c03_check::<_, chars::$ty>(concat!("&AnyLayout::", stringify!($ty)), &&a, true);
            }
        }
    };
}

crate::for_layouts!(c03_layout);
