//! C04: the reported modifier state is exactly the history of modifier key events.
use crate::refmodel::*;
use crate::spy::*;
use crate::sym::*;
use core::cell::Cell;
use pc_keyboard::*;

/// Base case: a new decoder reports NumLock on, everything else off (both modes, both sets).
#[kani::proof]
pub fn c04_q_initial() {
    let calls = Cell::new(0);
    let h = any_mode();
    let kb = Keyboard::new(ScancodeSet2::new(), Spy { tag: false, calls: &calls }, h);
    crate::show!("C04 initial mode={:?} mods={:?}", h, kb.get_modifiers());
    assert!(*kb.get_modifiers() == spec_initial(), "C04: initial modifier state");
    let kb1 = Keyboard::new(ScancodeSet1::new(), Spy { tag: false, calls: &calls }, h);
    assert!(*kb1.get_modifiers() == spec_initial(), "C04: initial modifier state (Set 1 keyboard)");
    kani::cover!(true);
}

/// Step: from every one of the 512 x 2 states (reached through the public API), every event moves
/// the modifier record exactly as the statement says; when the record does not change, nothing in
/// the decoder changes.
#[kani::proof]
pub fn c04_q_step() {
    let calls = Cell::new(0);
    let m = any_mods();
    let h = any_mode();
    let k = any_key();
    let s = any_state();
    let mut kb = kbd_with_mods(ScancodeSet2::new(), Spy { tag: false, calls: &calls }, &m, h);
    // obligation 0: the builder reaches the state it claims (so all 1024 states are reachable)
    assert!(*kb.get_modifiers() == m, "C04: modifier presses from a fresh decoder did not produce the pressed set");
    let before = kb.verif_stages().2.clone();
    let _ = kb.process_keyevent(KeyEvent::new(k, s));
    let want = spec_next(&m, k, s);
    crate::show!("C04 step mods={:?} mode={:?} key={:?} state={:?} after={:?} want={:?}", m, h, k, s, kb.get_modifiers(), want);
    assert!(*kb.get_modifiers() == want, "C04: modifier record after an event differs from the event history");
    if want == m {
        assert!(*kb.verif_stages().2 == before, "C04 closure: an event that changes no modifier changed the decoder state (state identity)");
    }
    assert!(kb.get_ctrl_handling() == h, "C04: an event changed the Ctrl handling mode");
    kani::cover!(want != m && s == KeyState::Up);
    kani::cover!(k == KeyCode::NumpadLock && s == KeyState::Down && want == m);
}

/// The step again, but after a symbolic two-event history on top of the pressed modifier set, so
/// that decoder state which only builds up over several events is inside the query.
#[kani::proof]
pub fn c04_q_step_after_history() {
    let calls = Cell::new(0);
    let m0 = any_mods();
    let h = any_mode();
    let mut kb = kbd_with_mods(ScancodeSet1::new(), Spy { tag: false, calls: &calls }, &m0, h);
    let (k1, s1) = (any_key(), any_state());
    let (k2, s2) = (any_key(), any_state());
    let (k3, s3) = (any_key(), any_state());
    let _ = kb.process_keyevent(KeyEvent::new(k1, s1));
    let _ = kb.process_keyevent(KeyEvent::new(k2, s2));
    let m = spec_next(&spec_next(&m0, k1, s1), k2, s2);
    assert!(*kb.get_modifiers() == m, "C04: modifier record after two events differs from the event history");
    let _ = kb.process_keyevent(KeyEvent::new(k3, s3));
    let want = spec_next(&m, k3, s3);
    crate::show!("C04 history mods0={:?} ev1=({:?},{:?}) ev2=({:?},{:?}) ev3=({:?},{:?}) after={:?} want={:?}", m0, k1, s1, k2, s2, k3, s3, kb.get_modifiers(), want);
    assert!(*kb.get_modifiers() == want, "C04: modifier record after a third event differs from the event history");
    kani::cover!(want != m && m != m0);
}

/// The modifier record is a function of the key-event history only: the configuration and framing
/// calls that may be interleaved with events (set_ctrl_handling, clear, bytes and words that do or do
/// not complete a scancode sequence, change_layout) never change it.
#[kani::proof]
pub fn c04_q_other_calls_leave_modifiers_alone() {
    let calls = Cell::new(0);
    let m0 = any_mods();
    let h = any_mode();
    let mut kb = kbd_with_mods(ScancodeSet2::new(), Spy { tag: false, calls: &calls }, &m0, h);
    let op: u8 = kani::any();
    kani::assume(op < 5);
    match op {
        0 => kb.set_ctrl_handling(any_mode()),
        1 => kb.clear(),
        2 => {
            let _ = kb.add_byte(kani::any());
        }
        3 => {
            let _ = kb.add_word(kani::any());
        }
        _ => {
            let _ = kb.add_bit(kani::any());
        }
    }
    crate::show!("C04 other call op={} mods before={:?} after={:?}", op, m0, kb.get_modifiers());
    assert!(*kb.get_modifiers() == m0, "C04: a call that is not a key event changed the reported modifiers");
    // bare EventDecoder: change_layout / set_ctrl_handling, observed through what the layout is handed next
    let mut d = evdec(Spy { tag: false, calls: &calls }, &m0, h);
    let tag: bool = kani::any();
    let mode = any_mode();
    if kani::any() {
        d.change_layout(Spy { tag, calls: &calls });
        d.set_ctrl_handling(mode);
    } else {
        d.set_ctrl_handling(mode);
        d.change_layout(Spy { tag, calls: &calls });
    }
    let probe = d.process_keyevent(KeyEvent::new(KeyCode::F1, KeyState::Down));
    assert!(probe == Some(enc(tag, KeyCode::F1, &m0, mode)), "C04: change_layout / set_ctrl_handling changed the modifiers handed to the layout");
    kani::cover!(op == 1 && m0.rctrl2);
}

/// The same step observed on a bare EventDecoder through what the layout is handed next.
#[kani::proof]
pub fn c04_q_step_eventdecoder() {
    let calls = Cell::new(0);
    let m = any_mods();
    let h = any_mode();
    let k = any_key();
    let s = any_state();
    let mut d = evdec(Spy { tag: true, calls: &calls }, &m, h);
    let _ = d.process_keyevent(KeyEvent::new(k, s));
    let want = spec_next(&m, k, s);
    // probe: a non-modifier press reveals the live modifier record
    let probe = d.process_keyevent(KeyEvent::new(KeyCode::F1, KeyState::Down));
    crate::show!("C04 evdec mods={:?} key={:?} state={:?} probe={:?}", m, k, s, probe);
    assert!(probe == Some(enc(true, KeyCode::F1, &want, h)), "C04: modifiers handed to the layout differ from the event history");
    kani::cover!(want != m);
}

/// Thorough: three symbolic events from new(), compared with the statement's direct reading
/// (held iff most recent event of that key was a press; locks = parity of counted presses).
#[kani::proof]
pub fn c04_t_three_events() {
    let calls = Cell::new(0);
    let h = any_mode();
    let mut kb = Keyboard::new(ScancodeSet1::new(), Spy { tag: false, calls: &calls }, h);
    let ks = [any_key(), any_key(), any_key()];
    let ss = [any_state(), any_state(), any_state()];
    let mut i = 0;
    while i < 3 {
        let _ = kb.process_keyevent(KeyEvent::new(ks[i], ss[i]));
        i += 1;
    }
    // direct reading of the statement
    let held = |key: KeyCode| -> bool {
        let mut v = false;
        let mut j = 0;
        while j < 3 {
            if ks[j] == key {
                match ss[j] {
                    KeyState::Down => v = true,
                    KeyState::Up => v = false,
                    KeyState::SingleShot => {}
                }
            }
            j += 1;
        }
        v
    };
    let mut caps = false;
    let mut num = true;
    let mut pausectl = false;
    let mut j = 0;
    while j < 3 {
        if ss[j] == KeyState::Down && ks[j] == KeyCode::CapsLock {
            caps = !caps;
        }
        if ss[j] == KeyState::Down && ks[j] == KeyCode::NumpadLock && !pausectl {
            num = !num;
        }
        if ks[j] == KeyCode::RControl2 {
            match ss[j] {
                KeyState::Down => pausectl = true,
                KeyState::Up => pausectl = false,
                KeyState::SingleShot => {}
            }
        }
        j += 1;
    }
    let want = Modifiers {
        lshift: held(KeyCode::LShift),
        rshift: held(KeyCode::RShift),
        lctrl: held(KeyCode::LControl),
        rctrl: held(KeyCode::RControl),
        numlock: num,
        capslock: caps,
        lalt: held(KeyCode::LAlt),
        ralt: held(KeyCode::RAltGr),
        rctrl2: held(KeyCode::RControl2),
    };
    crate::show!("C04 3 events {:?} {:?} -> {:?} want {:?}", ks, ss, kb.get_modifiers(), want);
    assert!(*kb.get_modifiers() == want, "C04: modifier record after three events differs from the event history");
    kani::cover!(!num && pausectl);
}
