//! C05 (frame acceptance) and C06 (bit-serial framing, frame independence).
use crate::refmodel::*;
use crate::sym::*;
use pc_keyboard::*;

/// C05: for every 11-bit word, add_word == reference frame check (acceptance, error priority, data).
#[kani::proof]
pub fn c05_q_word_vs_reference() {
    let w: u16 = kani::any();
    kani::assume(w < 2048);
    let d = Ps2Decoder::new();
    let got = d.add_word(w);
    let want = ref_frame(w);
    crate::show!("C05 word={:#06x} got={:?} want={:?}", w, got, want);
    assert!(got == want, "C05: add_word differs from the reference frame check");
    kani::cover!(got.is_ok());
    kani::cover!(got == Err(Error::BadStartBit));
    kani::cover!(got == Err(Error::BadStopBit));
    kani::cover!(got == Err(Error::ParityError));
}

/// C05 through the combined object: Keyboard::add_word accepts exactly the valid frames
/// (a framing error is returned as such; an accepted frame is handed on, so the result is
/// whatever the scancode stage says about the data byte).
#[kani::proof]
pub fn c05_q_keyboard_word() {
    let w: u16 = kani::any();
    kani::assume(w < 2048);
    let calls = core::cell::Cell::new(0);
    let mut kb = Keyboard::new(ScancodeSet2::new(), crate::spy::Spy { tag: false, calls: &calls }, HandleControl::Ignore);
    let got = kb.add_word(w);
    crate::show!("C05 keyboard word={:#06x} got={:?}", w, got);
    match ref_frame(w) {
        Err(e) => assert!(got == Err(e), "C05: Keyboard::add_word must report the framing error"),
        Ok(b) => {
            let mut s = ScancodeSet2::new();
            assert!(got == s.advance_state(b), "C05: accepted frame must deliver exactly its data byte");
        }
    }
    kani::cover!(matches!(got, Ok(Some(_))));
}

/// C05 corollary: every byte round-trips through its valid frame.
#[kani::proof]
pub fn c05_q_roundtrip() {
    let b: u8 = kani::any();
    let w = encode_frame(b);
    let got = Ps2Decoder::new().add_word(w);
    crate::show!("C05 roundtrip byte={:#04x} frame={:#06x} got={:?}", b, w, got);
    assert!(got == Ok(b), "C05: valid frame does not round-trip its byte");
    kani::cover!(true);
}

/// C05 corollary: every single-bit corruption of a valid frame is rejected.
#[kani::proof]
pub fn c05_q_single_bit_flip() {
    let b: u8 = kani::any();
    let j: u8 = kani::any();
    kani::assume(j < 11);
    let w = encode_frame(b) ^ (1u16 << j);
    let got = Ps2Decoder::new().add_word(w);
    crate::show!("C05 flip byte={:#04x} bit={} frame={:#06x} got={:?}", b, j, w, got);
    assert!(got.is_err(), "C05: single-bit corruption accepted");
    kani::cover!(true);
}

/// C05 on the bit-serial path: whatever frame (valid or corrupted) came before, a frame shifted in
/// bit by bit is accepted exactly when valid and then yields exactly its data bits.
#[kani::proof]
pub fn c05_q_serial_frame_after_any_frame() {
    let mut d = Ps2Decoder::new();
    let mut i = 0u8;
    while i < 11 {
        let _ = d.add_bit(kani::any());
        i += 1;
    }
    let mut w = 0u16;
    let mut last = Ok(None);
    let mut n = 0u8;
    while n < 11 {
        let b: bool = kani::any();
        w |= (b as u16) << n;
        last = d.add_bit(b);
        n += 1;
    }
    crate::show!("C05 serial second frame={:#06x} got={:?} want={:?}", w, last, ref_frame(w).map(Some));
    assert!(last == ref_frame(w).map(Some), "C05: frame shifted in after another frame is not accepted/rejected by the start/stop/parity rule");
    kani::cover!(matches!(last, Ok(Some(_))));
}

/// C05 on the bit-serial path after a timeout: k bits of an abandoned frame, clear(), then a frame
/// shifted in bit by bit is accepted exactly when valid (through the Keyboard as well).
#[kani::proof]
pub fn c05_q_serial_frame_after_clear() {
    let k: u8 = kani::any();
    kani::assume(k <= 10);
    let mut d = partial(k);
    d.clear();
    let mut w = 0u16;
    let mut last = Ok(None);
    let mut n = 0u8;
    while n < 11 {
        let b: bool = kani::any();
        w |= (b as u16) << n;
        last = d.add_bit(b);
        n += 1;
    }
    crate::show!("C05 serial after clear: k={} frame={:#06x} got={:?} want={:?}", k, w, last, ref_frame(w).map(Some));
    assert!(last == ref_frame(w).map(Some), "C05: frame shifted in after clear() is not accepted/rejected by the start/stop/parity rule");
    kani::cover!(matches!(last, Ok(Some(_))) && k == 10);
}

/// C05 thorough: two-bit corruptions are accepted only if they leave start/stop alone and keep
/// parity odd, and then deliver exactly the corrupted data bits (never some third byte).
#[kani::proof]
pub fn c05_t_double_bit_flip() {
    let b: u8 = kani::any();
    let j: u8 = kani::any();
    let k: u8 = kani::any();
    kani::assume(j < 11 && k < 11 && j != k);
    let w = encode_frame(b) ^ (1u16 << j) ^ (1u16 << k);
    let got = Ps2Decoder::new().add_word(w);
    crate::show!("C05 flip2 byte={:#04x} bits={},{} frame={:#06x} got={:?}", b, j, k, w, got);
    let touches_frame = j == 0 || k == 0 || j == 10 || k == 10;
    if touches_frame {
        assert!(got.is_err(), "C05: corrupted start/stop bit accepted");
    } else {
        assert!(got == Ok(((w >> 1) & 0xff) as u8), "C05: parity-preserving corruption must yield the data bits as received");
    }
    kani::cover!(got.is_ok());
}

/// C06 (a): from new(), ten bits give Ok(None), the eleventh gives what add_word gives for the
/// word they spell, and the decoder is then structurally equal to new() - valid frame or not.
#[kani::proof]
pub fn c06_q_serial_equals_word() {
    let mut d = Ps2Decoder::new();
    let mut w = 0u16;
    let mut i = 0u8;
    while i < 10 {
        let b: bool = kani::any();
        w |= (b as u16) << i;
        let r = d.add_bit(b);
        assert!(r == Ok(None), "C06: fewer than 11 bits must report 'incomplete'");
        i += 1;
    }
    let b: bool = kani::any();
    w |= (b as u16) << 10;
    let got = d.add_bit(b);
    let want = Ps2Decoder::new().add_word(w).map(Some);
    crate::show!("C06 frame={:#06x} got={:?} want={:?} after={:?}", w, got, want, d);
    assert!(got == want, "C06: 11th bit must return what whole-word decoding returns");
    assert!(d == Ps2Decoder::new(), "C06: decoder must be back in its initial state after any frame");
    kani::cover!(matches!(got, Ok(Some(_))));
    kani::cover!(got.is_err());
}

/// C06 (b): clear() after any number (<= 10) of bits yields the initial state.
#[kani::proof]
pub fn c06_q_clear_resets() {
    let k: u8 = kani::any();
    kani::assume(k <= 10);
    let mut d = partial(k);
    d.clear();
    crate::show!("C06 clear after k={} bits: {:?}", k, d);
    assert!(d == Ps2Decoder::new(), "C06: clear() must restore the initial state");
    kani::cover!(k == 10);
}

/// C06 (c): a partial frame is never reported complete early, and distinct partial frames do not
/// collapse into the initial state (so the *count* of pending bits is part of the state).
#[kani::proof]
pub fn c06_q_partial_then_frame() {
    // k bits of garbage, clear(), then a full symbolic frame: must decode as if fresh.
    let k: u8 = kani::any();
    kani::assume(k <= 10);
    let mut d = partial(k);
    d.clear();
    let mut w = 0u16;
    let mut i = 0u8;
    let mut last = Ok(None);
    while i < 11 {
        let b: bool = kani::any();
        w |= (b as u16) << i;
        last = d.add_bit(b);
        if i < 10 {
            assert!(last == Ok(None), "C06: early completion after clear()");
        }
        i += 1;
    }
    crate::show!("C06 k={} frame={:#06x} got={:?}", k, w, last);
    // C06 fixes no error value: the yardstick is whole-word decoding by the real code (C05 owns the rule)
    assert!(last == Ps2Decoder::new().add_word(w).map(Some), "C06: frame after clear() decoded differently from whole-word decoding");
    kani::cover!(matches!(last, Ok(Some(_))));
}

/// C06 thorough (non-inductive form): frame 1 (any 11 bits, valid or corrupted), then k bits and
/// clear(), then frame 2: frame 2 decodes exactly as whole-word decoding says. All 4.2M ordered
/// frame pairs and all partial states in one query, through Keyboard::add_bit/clear as well.
#[kani::proof]
pub fn c06_t_two_frames() {
    let mut d = Ps2Decoder::new();
    let mut i = 0u8;
    while i < 11 {
        let b: bool = kani::any();
        let _ = d.add_bit(b);
        i += 1;
    }
    let k: u8 = kani::any();
    kani::assume(k <= 10);
    let do_clear: bool = kani::any();
    if do_clear {
        let mut j = 0u8;
        while j < 10 {
            if j < k {
                let _ = d.add_bit(kani::any());
            }
            j += 1;
        }
        d.clear();
    }
    let mut w = 0u16;
    let mut last = Ok(None);
    let mut n = 0u8;
    while n < 11 {
        let b: bool = kani::any();
        w |= (b as u16) << n;
        last = d.add_bit(b);
        if n < 10 {
            assert!(last == Ok(None), "C06: early completion in second frame");
        }
        n += 1;
    }
    crate::show!("C06 two frames: second={:#06x} got={:?}", w, last);
    assert!(last == Ps2Decoder::new().add_word(w).map(Some), "C06: second frame depends on what preceded it");
    assert!(d == Ps2Decoder::new());
    kani::cover!(matches!(last, Ok(Some(_))) && do_clear);
}

/// C06 thorough: same through the combined Keyboard (frame 1 corrupted or not, then frame 2).
#[kani::proof]
pub fn c06_t_keyboard_two_frames() {
    let calls = core::cell::Cell::new(0);
    let mut kb = Keyboard::new(ScancodeSet1::new(), crate::spy::Spy { tag: false, calls: &calls }, HandleControl::Ignore);
    let k: u8 = kani::any();
    kani::assume(k <= 10);
    let mut j = 0u8;
    while j < 10 {
        if j < k {
            let r = kb.add_bit(kani::any());
            assert!(r == Ok(None));
        }
        j += 1;
    }
    kb.clear();
    let mut w = 0u16;
    let mut last = Ok(None);
    let mut n = 0u8;
    while n < 11 {
        let b: bool = kani::any();
        w |= (b as u16) << n;
        last = kb.add_bit(b);
        if n < 10 {
            assert!(last == Ok(None), "C06: Keyboard::add_bit completed early");
        }
        n += 1;
    }
    crate::show!("C06 keyboard: k={} frame={:#06x} got={:?}", k, w, last);
    match Ps2Decoder::new().add_word(w) {
        Err(e) => assert!(last == Err(e)),
        Ok(b) => {
            let mut s = ScancodeSet1::new();
            assert!(last == s.advance_state(b), "C06: Keyboard frame after clear() decoded differently");
        }
    }
    kani::cover!(matches!(last, Ok(Some(_))));
}

/// C06 thorough: three frames in a row (valid or corrupted, 2^33 bit streams), each decoded exactly
/// as whole-word decoding says, with optional clear() between them.
#[kani::proof]
pub fn c06_t_three_frames() {
    let mut d = Ps2Decoder::new();
    let mut f = 0u8;
    while f < 3 {
        let mut w = 0u16;
        let mut last = Ok(None);
        let mut n = 0u8;
        while n < 11 {
            let b: bool = kani::any();
            w |= (b as u16) << n;
            last = d.add_bit(b);
            if n < 10 {
                assert!(last == Ok(None), "C06: early completion");
            }
            n += 1;
        }
        crate::show!("C06 three frames: frame #{}={:#06x} got={:?}", f, w, last);
        assert!(last == Ps2Decoder::new().add_word(w).map(Some), "C06: a later frame depends on the frames before it");
        if kani::any() {
            d.clear();
        }
        f += 1;
    }
    assert!(d == Ps2Decoder::new());
    kani::cover!(true);
}
