//! C07: both scancode decoders are back in their initial condition after every event or error; a
//! prefix influences at most the next two (Set 2) / one (Set 1) bytes.
use crate::refmodel::*;
use crate::sym::*;
use pc_keyboard::*;

fn closed2(s: &ScancodeSet2) -> bool {
    *s == ctx2(0) || *s == ctx2(1) || *s == ctx2(2) || *s == ctx2(3) || *s == ctx2(4) || *s == ctx2(5)
}
fn closed1(s: &ScancodeSet1) -> bool {
    *s == ctx1(0) || *s == ctx1(1) || *s == ctx1(2)
}

fn c07_set2(i: u8) {
    let b: u8 = kani::any();
    let mut s = ctx2(i);
    let r = s.advance_state(b);
    crate::show!("C07 set2 ctx={} byte={:#04x} result={:?}", i, b, r);
    if !matches!(r, Ok(None)) {
        assert!(s == ScancodeSet2::new(), "C07: Set 2 decoder not back in its initial state after an event/error");
    } else {
        // still inside a sequence: the pending prefix grew by exactly one byte
        assert!(closed2(&s), "C07: Set 2 decoder left the set of documented prefix contexts");
        assert!(SET2_CTX_DEPTH[i as usize] < 2, "C07: 'no event yet' for a third consecutive byte");
        let j: u8 = kani::any();
        kani::assume(j < SET2_CONTEXTS && s == ctx2(j));
        assert!(SET2_CTX_DEPTH[j as usize] == SET2_CTX_DEPTH[i as usize] + 1, "C07: prefix depth must grow by one");
    }
    kani::cover!(matches!(r, Ok(Some(_))));
    kani::cover!(r.is_err());
}

macro_rules! c07_ctx2 {
    ($name:ident, $i:expr) => {
        #[kani::proof]
        pub fn $name() {
            c07_set2($i);
        }
    };
}
c07_ctx2!(c07_q_set2_ctx0, 0);
c07_ctx2!(c07_q_set2_ctx1, 1);
c07_ctx2!(c07_q_set2_ctx2, 2);
c07_ctx2!(c07_q_set2_ctx3, 3);
c07_ctx2!(c07_q_set2_ctx4, 4);
c07_ctx2!(c07_q_set2_ctx5, 5);

fn c07_set1(i: u8) {
    let b: u8 = kani::any();
    let mut s = ctx1(i);
    let r = s.advance_state(b);
    crate::show!("C07 set1 ctx={} byte={:#04x} result={:?}", i, b, r);
    if !matches!(r, Ok(None)) {
        assert!(s == ScancodeSet1::new(), "C07: Set 1 decoder not back in its initial state after an event/error");
    } else {
        assert!(closed1(&s), "C07: Set 1 decoder left the set of documented prefix contexts");
        assert!(i == 0, "C07: 'no event yet' for a second consecutive byte");
        assert!(s != ScancodeSet1::new(), "C07: a swallowed byte must be a pending prefix");
    }
    kani::cover!(matches!(r, Ok(Some(_))));
    kani::cover!(r.is_err());
}

macro_rules! c07_ctx1 {
    ($name:ident, $i:expr) => {
        #[kani::proof]
        pub fn $name() {
            c07_set1($i);
        }
    };
}
c07_ctx1!(c07_q_set1_ctx0, 0);
c07_ctx1!(c07_q_set1_ctx1, 1);
c07_ctx1!(c07_q_set1_ctx2, 2);

/// The same resynchronisation seen through Keyboard::add_byte (symbolic prefix context): the
/// combined object must not keep a prefix pending across an event or error either, and must not
/// swallow bytes the decoder would have answered.
#[kani::proof]
pub fn c07_q_keyboard_set2() {
    let i: u8 = kani::any();
    kani::assume(i < SET2_CONTEXTS);
    let b: u8 = kani::any();
    let calls = core::cell::Cell::new(0);
    let mut kb = Keyboard::new(ctx2(i), crate::spy::Spy { tag: false, calls: &calls }, HandleControl::Ignore);
    let r = kb.add_byte(b);
    crate::show!("C07 keyboard set2 ctx={} byte={:#04x} result={:?}", i, b, r);
    if !matches!(r, Ok(None)) {
        assert!(*kb.verif_stages().1 == ScancodeSet2::new(), "C07: Keyboard's Set 2 decoder not back in its initial state after an event/error");
    } else {
        assert!(SET2_CTX_DEPTH[i as usize] < 2, "C07: Keyboard::add_byte returned 'no event yet' for a third consecutive byte");
        assert!(b == 0xE0 || b == 0xE1 || b == 0xF0, "C07: Keyboard::add_byte swallowed a byte that is not a prefix");
        assert!(*kb.verif_stages().1 != ctx2(i), "C07: a swallowed byte must extend the pending prefix");
    }
    kani::cover!(r.is_err());
}

#[kani::proof]
pub fn c07_q_keyboard_set1() {
    let i: u8 = kani::any();
    kani::assume(i < SET1_CONTEXTS);
    let b: u8 = kani::any();
    let calls = core::cell::Cell::new(0);
    let mut kb = Keyboard::new(ctx1(i), crate::spy::Spy { tag: false, calls: &calls }, HandleControl::Ignore);
    let r = kb.add_byte(b);
    crate::show!("C07 keyboard set1 ctx={} byte={:#04x} result={:?}", i, b, r);
    if !matches!(r, Ok(None)) {
        assert!(*kb.verif_stages().1 == ScancodeSet1::new(), "C07: Keyboard's Set 1 decoder not back in its initial state after an event/error");
    } else {
        assert!(i == 0 && (b == 0xE0 || b == 0xE1), "C07: Keyboard::add_byte swallowed a byte that is not a prefix in the initial context");
    }
    kani::cover!(r.is_err());
}

/// C07 thorough, literal stream form (Set 2): bytes x y z t from new(); whenever y's result is an
/// event or an error, the results for z t equal those of a fresh decoder fed z t.
#[kani::proof]
pub fn c07_t_set2_stream() {
    let x: u8 = kani::any();
    let y: u8 = kani::any();
    let z: u8 = kani::any();
    let t: u8 = kani::any();
    let mut s = ScancodeSet2::new();
    let _ = s.advance_state(x);
    let ry = s.advance_state(y);
    let rz = s.advance_state(z);
    let rt = s.advance_state(t);
    crate::show!("C07 set2 stream {:#04x} {:#04x} {:#04x} {:#04x}: {:?} {:?} {:?}", x, y, z, t, ry, rz, rt);
    if !matches!(ry, Ok(None)) {
        let mut f = ScancodeSet2::new();
        assert!(f.advance_state(z) == rz, "C07: byte after an event/error decoded differently from a fresh decoder");
        assert!(f.advance_state(t) == rt, "C07: second byte after an event/error decoded differently from a fresh decoder");
    }
    kani::cover!(ry.is_err() && matches!(rt, Ok(Some(_))));
}

/// No three consecutive "no event yet" from new() in Set 2 ... and never three in any window of a
/// 4-byte stream.
#[kani::proof]
pub fn c07_t_set2_no_three_nones() {
    let mut s = ScancodeSet2::new();
    let r0 = s.advance_state(kani::any());
    let r1 = s.advance_state(kani::any());
    let r2 = s.advance_state(kani::any());
    let r3 = s.advance_state(kani::any());
    let n = |r: &ScanResult| matches!(r, Ok(None));
    assert!(!(n(&r0) && n(&r1) && n(&r2)), "C07: three consecutive 'no event yet' in Set 2");
    assert!(!(n(&r1) && n(&r2) && n(&r3)), "C07: three consecutive 'no event yet' in Set 2");
    kani::cover!(n(&r0) && n(&r1));
}

#[kani::proof]
pub fn c07_t_set1_stream() {
    let x: u8 = kani::any();
    let y: u8 = kani::any();
    let z: u8 = kani::any();
    let t: u8 = kani::any();
    let mut s = ScancodeSet1::new();
    let rx = s.advance_state(x);
    let ry = s.advance_state(y);
    let rz = s.advance_state(z);
    let rt = s.advance_state(t);
    crate::show!("C07 set1 stream {:#04x} {:#04x} {:#04x} {:#04x}: {:?} {:?} {:?} {:?}", x, y, z, t, rx, ry, rz, rt);
    let n = |r: &ScanResult| matches!(r, Ok(None));
    assert!(!(n(&rx) && n(&ry)) && !(n(&ry) && n(&rz)) && !(n(&rz) && n(&rt)), "C07: two consecutive 'no event yet' in Set 1");
    if !n(&ry) {
        let mut f = ScancodeSet1::new();
        assert!(f.advance_state(z) == rz, "C07: byte after an event/error decoded differently from a fresh decoder");
        assert!(f.advance_state(t) == rt);
    }
    kani::cover!(ry.is_err() && matches!(rt, Ok(Some(_))));
}
