//! C08: no operation panics or overflows for any input in any reachable state.
//!
//! These harnesses carry no functional assertion: Kani instruments every arithmetic operation,
//! shift, index, unwrap/expect/panic!/unimplemented!/unreachable! reachable from them, and they put
//! every public operation under those checks on its whole domain, from every reachable state (the
//! state families are the ones proved closed by C01/C02/C06/C04).
use crate::refmodel::*;
use crate::spy::*;
use crate::sym::*;
use core::cell::Cell;
use pc_keyboard::layouts::*;
use pc_keyboard::*;

#[kani::proof]
pub fn c08_q_set2_two_bytes_from_any_context() {
    let i: u8 = kani::any();
    kani::assume(i < SET2_CONTEXTS);
    let mut s = ctx2(i);
    let _ = s.advance_state(kani::any());
    let _ = s.advance_state(kani::any());
    kani::cover!(true);
}

#[kani::proof]
pub fn c08_q_set1_two_bytes_from_any_context() {
    let i: u8 = kani::any();
    kani::assume(i < SET1_CONTEXTS);
    let mut s = ctx1(i);
    let _ = s.advance_state(kani::any());
    let _ = s.advance_state(kani::any());
    kani::cover!(true);
}

/// Every 16-bit word (also those outside the documented 11-bit packing).
#[kani::proof]
pub fn c08_q_add_word_all_u16() {
    let w: u16 = kani::any();
    let d = Ps2Decoder::new();
    let _ = d.add_word(w);
    let calls = Cell::new(0);
    let mut kb = Keyboard::new(ScancodeSet2::new(), Spy { tag: false, calls: &calls }, HandleControl::Ignore);
    let _ = kb.add_word(w);
    kani::cover!(w >= 2048);
}

/// add_bit from every partial-frame state, twelve more bits (crossing a frame boundary), clear.
#[kani::proof]
pub fn c08_q_add_bit_any_state() {
    let k: u8 = kani::any();
    kani::assume(k <= 10);
    let mut d = partial(k);
    let mut i = 0u8;
    while i < 12 {
        let _ = d.add_bit(kani::any());
        if kani::any() {
            d.clear();
        }
        i += 1;
    }
    let _ = Ps2Decoder::default();
    kani::cover!(true);
}

/// process_keyevent from all 1024 states x every event, with a real layout behind it.
#[kani::proof]
pub fn c08_q_process_keyevent_any_state() {
    let m = any_mods();
    let h = any_mode();
    let mut d = evdec(Us104Key, &m, h);
    let _ = d.process_keyevent(KeyEvent::new(any_key(), any_state()));
    let _ = d.process_keyevent(KeyEvent::new(any_key(), any_state()));
    d.set_ctrl_handling(any_mode());
    let _ = d.get_ctrl_handling();
    kani::cover!(true);
}

#[kani::proof]
pub fn c08_q_modifier_predicates() {
    let m = any_mods();
    let _ = (m.is_shifted(), m.is_ctrl(), m.is_alt(), m.is_altgr(), m.is_caps());
    let _ = Modifiers::default();
    kani::cover!(true);
}

/// Whole Keyboard: any bytes / bits / events / clear in sequence from new (both sets).
#[kani::proof]
pub fn c08_q_keyboard_mixed_ops() {
    let mut kb2 = Keyboard::new(ScancodeSet2::default(), AnyLayout::Jis109Key(Jis109Key), any_mode());
    let mut kb1 = Keyboard::new(ScancodeSet1::default(), AnyLayout::Azerty(Azerty), any_mode());
    let mut i = 0u8;
    while i < 12 {
        let b: bool = kani::any();
        if let Ok(Some(ev)) = kb2.add_bit(b) {
            let _ = kb2.process_keyevent(ev);
        }
        if let Ok(Some(ev)) = kb1.add_bit(b) {
            let _ = kb1.process_keyevent(ev);
        }
        i += 1;
    }
    if let Ok(Some(ev)) = kb2.add_byte(kani::any()) {
        let _ = kb2.process_keyevent(ev);
    }
    if let Ok(Some(ev)) = kb1.add_byte(kani::any()) {
        let _ = kb1.process_keyevent(ev);
    }
    kb1.clear();
    kb2.clear();
    let _ = kb1.get_modifiers();
    kani::cover!(true);
}

/// Every Keyboard operation from an arbitrary product state (any partial frame x any prefix context
/// x any modifier/mode state), so that assertions which only fire after *mixed* use of the input
/// paths are reachable.  No functional assertion.
macro_rules! c08_kb_any_state {
    ($name:ident, $set:ty, $ctx:ident, $n:expr) => {
        #[kani::proof]
        pub fn $name() {
            let k: u8 = kani::any();
            kani::assume(k <= 10);
            let i: u8 = kani::any();
            kani::assume(i < $n);
            let m = any_mods();
            let mut kb: Keyboard<Uk105Key, $set> = Keyboard::verif_from_stages(partial(k), $ctx(i), evdec(Uk105Key, &m, any_mode()));
            let op: u8 = kani::any();
            kani::assume(op < 6);
            match op {
                0 => {
                    let _ = kb.add_bit(kani::any());
                }
                1 => {
                    let _ = kb.add_word(kani::any());
                }
                2 => {
                    let _ = kb.add_byte(kani::any());
                }
                3 => {
                    let _ = kb.process_keyevent(KeyEvent::new(any_key(), any_state()));
                }
                4 => kb.clear(),
                _ => kb.set_ctrl_handling(any_mode()),
            }
            let _ = kb.get_modifiers();
            let _ = kb.get_ctrl_handling();
            kani::cover!(op == 1 && k > 0);
        }
    };
}
c08_kb_any_state!(c08_q_keyboard_any_op_any_state_set1, ScancodeSet1, ctx1, 3);
c08_kb_any_state!(c08_q_keyboard_any_op_any_state_set2, ScancodeSet2, ctx2, 6);

macro_rules! c08_layout {
    ($short:ident, $ty:ident) => {
        pub mod $short {
            use super::*;
            #[kani::proof]
            pub fn c08_q_map_keycode() {
                let _ = $ty.map_keycode(any_key(), &any_mods(), any_mode());
                kani::cover!(true);
            }
            #[kani::proof]
            pub fn c08_t_map_keycode_any() {
                let a = AnyLayout::$ty($ty);
                let _ = a.map_keycode(any_key(), &any_mods(), any_mode());
                let r = &a;
                let _ = <&AnyLayout as KeyboardLayout>::map_keycode(&r, any_key(), &any_mods(), any_mode());
                kani::cover!(true);
            }
        }
    };
}
crate::for_layouts!(c08_layout);

/// Thorough: four symbolic bytes from new() through each decoder (any stream of length 4).
#[kani::proof]
pub fn c08_t_streams4() {
    let mut s2 = ScancodeSet2::new();
    let mut s1 = ScancodeSet1::new();
    let mut i = 0;
    while i < 4 {
        let _ = s2.advance_state(kani::any());
        let _ = s1.advance_state(kani::any());
        i += 1;
    }
    kani::cover!(true);
}
