//! C09: Ctrl+letter yields U+0001..U+001A for the letter the layout types; otherwise Ctrl handling
//! changes nothing.
use crate::refmodel::*;
use crate::sym::*;
use pc_keyboard::layouts::*;
use pc_keyboard::*;

fn is_ctrl_letter_code(d: DecodedKey) -> bool {
    match d {
        DecodedKey::Unicode(c) => (c as u32) >= 1 && (c as u32) <= 0x1A,
        _ => false,
    }
}

pub fn c09_check<L: KeyboardLayout>(name: &str, l: &L) {
    let k = any_key();
    let m = any_mods();
    // The layout's own answer decides what a "letter key" is.
    let plain = l.map_keycode(k, &spec_initial(), HandleControl::Ignore);
    let letter = match plain {
        DecodedKey::Unicode(c) if is_ascii_lower(c) => Some(c),
        _ => None,
    };
    let out_map = l.map_keycode(k, &m, HandleControl::MapLettersToUnicode);
    let out_ign = l.map_keycode(k, &m, HandleControl::Ignore);
    crate::show!("C09 {} key={:?} types={:?} mods={:?} map={:?} ignore={:?}", name, k, plain, m, out_map, out_ign);
    if !r_ctrl(&m) {
        assert!(out_map == out_ign, "C09: Ctrl mode changes the output although Ctrl is not held");
    }
    if !m.lalt && !m.ralt {
        // mapping disabled: the Ctrl keys are inert (with an Alt key, Ctrl legitimately forms AltGr)
        let mut m2 = m.clone();
        m2.lctrl = false;
        m2.rctrl = false;
        let no_ctrl = l.map_keycode(k, &m2, HandleControl::Ignore);
        assert!(out_ign == no_ctrl, "C09: Ctrl changes the output although mapping is disabled");
    }
    match letter {
        None => {
            assert!(out_map == out_ign, "C09: Ctrl mapping changes a non-letter key");
        }
        Some(c) => {
            // (v) "Ctrl not held / mapping disabled => Ctrl handling changes nothing", absolute form: the
            // two-run comparisons above cannot see Ctrl handling that misfires identically in both runs
            // (seed C09-r4m1: a carry out of Shift+CapsLock sets the layout's private Ctrl bit in both
            // modes), so additionally a letter key never yields U+0001..U+001A unless mapping is enabled
            // and a Ctrl key is held.
            assert!(!is_ctrl_letter_code(out_ign), "C09: a letter key yields a control character although mapping is disabled");
            if !r_ctrl(&m) {
                assert!(!is_ctrl_letter_code(out_map), "C09: a letter key yields a control character although Ctrl is not held");
            }
            if r_ctrl(&m) && !m.lalt && !m.ralt {
                let want = char::from_u32(c as u32 - 0x60).map(DecodedKey::Unicode);
                assert!(Some(out_map) == want, "C09: Ctrl+letter is not the control character of the letter the layout types");
            }
            kani::cover!(r_ctrl(&m) && !m.lalt && !m.ralt);
        }
    }
    kani::cover!(letter.is_none() && r_ctrl(&m));
}

macro_rules! c09_layout {
    ($short:ident, $ty:ident) => {
        pub mod $short {
            use super::*;
            #[kani::proof]
            pub fn c09_q_ctrl() {
                c09_check(stringify!($ty), &$ty);
            }
            #[kani::proof]
            pub fn c09_t_any() {
                c09_check(concat!("AnyLayout::", stringify!($ty)), &AnyLayout::$ty($ty));
            }
        }
    };
}
crate::for_layouts!(c09_layout);

/// C09 thorough, end to end: set_ctrl_handling on a live decoder, Ctrl pressed through events.
macro_rules! c09_e2e {
    ($short:ident, $ty:ident) => {
        pub mod $short {
            use super::super::*;
            #[kani::proof]
            pub fn c09_t_events() {
                let k = any_key();
                kani::assume(!is_modifier_key(k));
                let plain = $ty.map_keycode(k, &spec_initial(), HandleControl::Ignore);
                let mut d = EventDecoder::new($ty, any_mode());
                let which: bool = kani::any();
                let ctrl = if which { KeyCode::LControl } else { KeyCode::RControl };
                let _ = d.process_keyevent(KeyEvent::new(ctrl, KeyState::Down));
                d.set_ctrl_handling(HandleControl::MapLettersToUnicode);
                let out = d.process_keyevent(KeyEvent::new(k, KeyState::Down));
                crate::show!("C09 e2e {} key={:?} types={:?} ctrl={:?} out={:?}", stringify!($ty), k, plain, ctrl, out);
                if let DecodedKey::Unicode(c) = plain {
                    if is_ascii_lower(c) {
                        assert!(out == char::from_u32(c as u32 - 0x60).map(DecodedKey::Unicode), "C09: Ctrl+letter through the event decoder");
                    } else {
                        assert!(out == Some(plain), "C09: Ctrl changed a non-letter key");
                    }
                } else {
                    assert!(out == Some(plain), "C09: Ctrl changed a raw key");
                }
                // switch mapping off: the very next press is the plain letter again
                d.set_ctrl_handling(HandleControl::Ignore);
                let out2 = d.process_keyevent(KeyEvent::new(k, KeyState::Down));
                assert!(out2 == Some(plain), "C09: Ctrl held with mapping disabled changed the output");
                kani::cover!(true);
            }
        }
    };
}
pub mod e2e {
    crate::for_layouts!(c09_e2e);
}
