//! C10: CapsLock inverts Shift on letter keys and affects nothing else.
use crate::refmodel::*;
use crate::sym::*;
use pc_keyboard::layouts::*;
use pc_keyboard::*;

pub fn c10_check<L: KeyboardLayout>(name: &str, l: &L) {
    let k = any_key();
    let h = any_mode();
    // context: every flag other than the shifts and CapsLock is symbolic
    let mut c = any_mods();
    c.lshift = false;
    c.rshift = false;
    c.capslock = false;
    let which: u8 = kani::any();
    kani::assume(which >= 1 && which <= 3); // left, right, or both shift keys
    let mut s = c.clone();
    s.lshift = which & 1 != 0;
    s.rshift = which & 2 != 0;
    let mut p = c.clone();
    p.capslock = true;
    let mut sp = s.clone();
    sp.capslock = true;
    let base = l.map_keycode(k, &c, h);
    let sh = l.map_keycode(k, &s, h);
    let cp = l.map_keycode(k, &p, h);
    let cs = l.map_keycode(k, &sp, h);
    crate::show!("C10 {} key={:?} ctx={:?} mode={:?} shift={} base={:?} shift={:?} caps={:?} caps+shift={:?}", name, k, c, h, which, base, sh, cp, cs);
    let letter = match (base, sh) {
        (DecodedKey::Unicode(b), DecodedKey::Unicode(u)) => upper_of(b) == Some(u),
        _ => false,
    };
    if letter {
        assert!(cp == sh, "C10: CapsLock alone must give the capital letter");
        assert!(cs == base, "C10: CapsLock+Shift must give the small letter");
    } else {
        assert!(cp == base, "C10: CapsLock changes a key that is not a letter key");
        assert!(cs == sh, "C10: CapsLock changes the shifted output of a key that is not a letter key");
    }
    kani::cover!(letter);
    kani::cover!(!letter && base != sh);
}

macro_rules! c10_layout {
    ($short:ident, $ty:ident) => {
        pub mod $short {
            use super::*;
            #[kani::proof]
            pub fn c10_q_caps() {
                c10_check(stringify!($ty), &$ty);
            }
            #[kani::proof]
            pub fn c10_t_any() {
                c10_check(concat!("AnyLayout::", stringify!($ty)), &AnyLayout::$ty($ty));
            }
        }
    };
}
crate::for_layouts!(c10_layout);
