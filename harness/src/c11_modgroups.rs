//! C11: layouts see modifiers only as Shift, Ctrl, AltGr, CapsLock and (numpad keys) NumLock.
use crate::refmodel::*;
use crate::sym::*;
use pc_keyboard::layouts::*;
use pc_keyboard::*;

/// (a) the public predicates compute exactly the documented groupings, for all 512 records.
#[kani::proof]
pub fn c11_q_predicates() {
    let m = any_mods();
    crate::show!("C11 predicates mods={:?}", m);
    assert!(m.is_shifted() == r_shift(&m), "C11: is_shifted");
    assert!(m.is_ctrl() == r_ctrl(&m), "C11: is_ctrl");
    assert!(m.is_alt() == r_alt(&m), "C11: is_alt");
    assert!(m.is_altgr() == r_altgr(&m), "C11: is_altgr");
    assert!(m.is_caps() == r_caps(&m), "C11: is_caps");
    kani::cover!(m.is_altgr() && !m.ralt);
}

/// (b) 2-safety: two modifier records that agree on the five facts give the same output.
pub fn c11_check<L: KeyboardLayout>(name: &str, l: &L) {
    let k = any_key();
    let h = any_mode();
    let m1 = any_mods();
    let m2 = any_mods();
    kani::assume(r_shift(&m1) == r_shift(&m2));
    kani::assume(r_ctrl(&m1) == r_ctrl(&m2));
    kani::assume(r_altgr(&m1) == r_altgr(&m2));
    kani::assume(m1.capslock == m2.capslock);
    kani::assume(m1.numlock == m2.numlock || !is_numpad_key(k));
    let o1 = l.map_keycode(k, &m1, h);
    let o2 = l.map_keycode(k, &m2, h);
    crate::show!("C11 {} key={:?} mode={:?} m1={:?} m2={:?} o1={:?} o2={:?}", name, k, h, m1, m2, o1, o2);
    assert!(o1 == o2, "C11: output depends on more than Shift/Ctrl/AltGr/CapsLock/NumLock");
    kani::cover!(m1.lshift != m2.lshift && m1.lalt != m2.lalt && m1.rctrl2 != m2.rctrl2);
    kani::cover!(m1.numlock != m2.numlock);
}

macro_rules! c11_layout {
    ($short:ident, $ty:ident) => {
        pub mod $short {
            use super::*;
            #[kani::proof]
            pub fn c11_q_groups() {
                c11_check(stringify!($ty), &$ty);
            }
            #[kani::proof]
            pub fn c11_t_any() {
                c11_check(concat!("AnyLayout::", stringify!($ty)), &AnyLayout::$ty($ty));
            }
        }
    };
}
crate::for_layouts!(c11_layout);
