//! C12: every printable ASCII character can be typed on every layout.
use crate::gen_keys::*;
use crate::gen_oracle::chars;
use crate::refmodel::*;
use crate::sym::*;
use pc_keyboard::layouts::*;
use pc_keyboard::*;

/// Witness table found natively on the current tree by the `native` binary and *verified* here by
/// the solver for a symbolic character: W[c - 0x20] = (index into ALL_KEYS, level), 255 = none found.
pub trait AsciiWitness {
    const W: [(u8, u8); 95];
    const MISSING: usize;
}
include!(concat!(env!("CARGO_MANIFEST_DIR"), "/src/gen_witness.rs"));

fn types_char<L: KeyboardLayout>(l: &L, ki: usize, level: u8, h: HandleControl, c: u8) -> bool {
    l.map_keycode(ALL_KEYS[ki], &level_mods(level), h) == DecodedKey::Unicode(c as char)
}

/// Direct "for every c there is a key and level": c symbolic, loop over the concrete keys x levels.
fn exists_direct<L: KeyboardLayout>(l: &L, h: HandleControl, c: u8) -> bool {
    let mut found = false;
    let mut i = 0usize;
    while i < N_KEYS {
        if types_char(l, i, 0, h, c) || types_char(l, i, 1, h, c) || types_char(l, i, 2, h, c) {
            found = true;
        }
        i += 1;
    }
    found
}

/// Skolemised form: the witness table is checked by the solver for symbolic c and both modes.
/// Characters for which the native search found no witness fall back to the direct query, so the
/// verdict and the counterexample still come from the solver.
pub fn c12_witness<L: KeyboardLayout, W: AsciiWitness>(name: &str, l: &L) {
    let c: u8 = kani::any();
    kani::assume(c >= 0x20 && c <= 0x7E);
    let h = any_mode();
    let (ki, lvl) = W::W[(c - 0x20) as usize];
    if W::MISSING == 0 || ki != 255 {
        kani::assume(ki != 255);
        let out = l.map_keycode(ALL_KEYS[ki as usize], &level_mods(lvl), h);
        crate::show!("C12 {} char={:?} witness key={:?} level={} mode={:?} out={:?}", name, c as char, ALL_KEYS[ki as usize], lvl, h, out);
        assert!(out == DecodedKey::Unicode(c as char), "C12: witness key/level does not type the character");
    } else {
        crate::show!("C12 {} char={:?} ({:#04x}) mode={:?}: no key at base/shift/altgr level types it", name, c as char, c, h);
        assert!(exists_direct(l, h, c), "C12: printable ASCII character cannot be typed on this layout");
    }
    kani::cover!(true);
}

pub fn c12_direct<L: KeyboardLayout>(name: &str, l: &L) {
    let c: u8 = kani::any();
    kani::assume(c >= 0x20 && c <= 0x7E);
    let h = any_mode();
    crate::show!("C12 direct {} char={:?} ({:#04x}) mode={:?}", name, c as char, c, h);
    assert!(exists_direct(l, h, c), "C12: printable ASCII character cannot be typed on this layout");
    kani::cover!(true);
}

macro_rules! c12_layout {
    ($short:ident, $ty:ident) => {
        pub mod $short {
            use super::*;
            #[kani::proof]
            #[kani::unwind(300)]
            pub fn c12_q_witness() {
                c12_witness::<_, chars::$ty>(stringify!($ty), &$ty);
            }
            /// the same witness table through both AnyLayout impls (what a runtime-selected layout types)
            #[kani::proof]
            #[kani::unwind(300)]
            pub fn c12_q_witness_any() {
                c12_witness::<_, chars::$ty>(concat!("AnyLayout::", stringify!($ty)), &AnyLayout::$ty($ty));
            }
            #[kani::proof]
            #[kani::unwind(300)]
            pub fn c12_q_witness_anyref() {
                let a = AnyLayout::$ty($ty);
                c12_witness::<_, chars::$ty>(concat!("&AnyLayout::", stringify!($ty)), &&a);
            }
            #[kani::proof]
            #[kani::unwind(300)]
            pub fn c12_t_direct() {
                c12_direct(stringify!($ty), &$ty);
            }
        }
    };
}
crate::for_layouts!(c12_layout);
