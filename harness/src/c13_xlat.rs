//! C13: Set 1 and Set 2 decode consistently under the i8042 translation.
use crate::gen_known::*;
use crate::gen_oracle::*;
use crate::refmodel::*;
use crate::sym::*;
use pc_keyboard::*;

/// Set 2 context for prefix class p (0 plain, 1 E0, 2 E1) and make/break.
fn set2_ctx(p: u8, brk: bool) -> u8 {
    match (p, brk) {
        (0, false) => 0,
        (0, true) => 2,
        (1, false) => 1,
        (1, true) => 3,
        (_, false) => 4,
        (_, true) => 5,
    }
}

fn is_key_event(r: &ScanResult) -> bool {
    match r {
        Ok(Some(ev)) => ev.state != KeyState::SingleShot,
        _ => false,
    }
}

fn c13_forward(p: u8) {
    let c: u8 = kani::any();
    let brk: bool = kani::any();
    let t = XLAT[c as usize];
    kani::assume(t != 0xFF);
    kani::assume(!known_xlat_forward(p, c));
    let mut s2 = ctx2(set2_ctx(p, brk));
    let e2 = s2.advance_state(c);
    let mut s1 = ctx1(p);
    let b1 = t | if brk { 0x80 } else { 0 };
    let e1 = s1.advance_state(b1);
    crate::show!("C13 forward prefix={} break={} set2 code={:#04x} -> {:?}; translated set1 byte={:#04x} -> {:?}", p, brk, c, e2, b1, e1);
    if is_key_event(&e2) {
        assert!(e1 == e2, "C13: Set 2 sequence and its i8042 translation decode to different events");
    }
    // both decoders are back at the start after a complete sequence, so the per-sequence agreement
    // composes to whole streams (state identity; a failure alone triggers the two-sequence search)
    // (a translated break byte that collides with a Set 1 prefix byte, 0x60/0x61 | 0x80, is not a complete sequence there)
    let collides = p == 0 && (b1 == 0xE0 || b1 == 0xE1);
    assert!(s2 == ScancodeSet2::new() && (collides || s1 == ScancodeSet1::new()), "C13 closure: a decoder is not back in its initial state after a complete sequence");
    kani::cover!(is_key_event(&e2) && brk);
}

fn c13_backward(p: u8) {
    let t: u8 = kani::any();
    kani::assume(t < 0x80);
    let brk: bool = kani::any();
    kani::assume(!known_xlat_backward(p, t));
    let mut s1 = ctx1(p);
    let b1 = t | if brk { 0x80 } else { 0 };
    let e1 = s1.advance_state(b1);
    let pre = XLAT_INV[t as usize];
    let mut matched = false;
    let mut i = 0;
    while i < XLAT_MAX_PRE {
        if pre[i] != 0xFF {
            let mut s2 = ctx2(set2_ctx(p, brk));
            if s2.advance_state(pre[i]) == e1 {
                matched = true;
            }
        }
        i += 1;
    }
    crate::show!("C13 backward prefix={} break={} set1 byte={:#04x} -> {:?}; set2 preimages={:?} matched={}", p, brk, b1, e1, pre, matched);
    if is_key_event(&e1) {
        assert!(matched, "C13: Set 1 sequence decodes to an event that no Set 2 preimage under the i8042 translation gives");
    }
    kani::cover!(is_key_event(&e1) && brk);
}

macro_rules! c13_p {
    ($f:ident, $b:ident, $p:expr) => {
        #[kani::proof]
        pub fn $f() {
            c13_forward($p);
        }
        #[kani::proof]
        pub fn $b() {
            c13_backward($p);
        }
    };
}
c13_p!(c13_q_forward_plain, c13_q_backward_plain, 0);
c13_p!(c13_q_forward_e0, c13_q_backward_e0, 1);
c13_p!(c13_q_forward_e1, c13_q_backward_e1, 2);

/// Through the combined Keyboard, with a framing timeout (clear()) at a symbolic point inside the
/// sequence: both sets must still agree, because clear() belongs to the bit framing only.
#[kani::proof]
pub fn c13_q_keyboard_clear_inside_sequence() {
    use pc_keyboard::layouts::Us104Key;
    let p: u8 = kani::any();
    kani::assume(p < 3);
    let c: u8 = kani::any();
    let brk: bool = kani::any();
    let t = XLAT[c as usize];
    kani::assume(t != 0xFF);
    kani::assume(!known_xlat_forward(p, c));
    kani::assume(!(p == 0 && brk && (t == 0x60 || t == 0x61)));
    let at: u8 = kani::any(); // 0: before the prefix, 1: after the prefix, 2: after F0 (Set 2 only)
    kani::assume(at < 3);
    let mut k2 = Keyboard::new(ScancodeSet2::new(), Us104Key, HandleControl::Ignore);
    let mut k1 = Keyboard::new(ScancodeSet1::new(), Us104Key, HandleControl::Ignore);
    if at == 0 {
        k2.clear();
        k1.clear();
    }
    if p == 1 {
        let _ = k2.add_byte(0xE0);
        let _ = k1.add_byte(0xE0);
    } else if p == 2 {
        let _ = k2.add_byte(0xE1);
        let _ = k1.add_byte(0xE1);
    }
    if at == 1 {
        k2.clear();
        k1.clear();
    }
    if brk {
        let _ = k2.add_byte(0xF0);
    }
    if at == 2 {
        k2.clear();
        k1.clear();
    }
    let e2 = k2.add_byte(c);
    let e1 = k1.add_byte(t | if brk { 0x80 } else { 0 });
    crate::show!("C13 keyboard prefix={} break={} code={:#04x} clear_at={} set2={:?} set1={:?}", p, brk, c, at, e2, e1);
    if is_key_event(&e2) {
        assert!(e1 == e2, "C13: with a clear() inside the sequence the two sets decode to different events");
    }
    kani::cover!(is_key_event(&e2) && at == 1 && p == 1);
}

/// Deep (also run when a closure assertion fails): two complete symbolic Set 2 sequences back to
/// back and their byte-wise i8042 translation; wherever the second Set 2 sequence yields a key
/// event, the translated stream yields the identical event at the same position.
#[kani::proof]
pub fn c13_t_two_sequences() {
    let p1: u8 = kani::any();
    let p2: u8 = kani::any();
    kani::assume(p1 < 3 && p2 < 3);
    let c1: u8 = kani::any();
    let c2: u8 = kani::any();
    let b1: bool = kani::any();
    let b2: bool = kani::any();
    let t1 = XLAT[c1 as usize];
    let t2 = XLAT[c2 as usize];
    kani::assume(t1 != 0xFF && t2 != 0xFF);
    kani::assume(!known_xlat_forward(p1, c1) && !known_xlat_forward(p2, c2));
    let mut s2 = ScancodeSet2::new();
    let mut s1 = ScancodeSet1::new();
    let feed2 = |s: &mut ScancodeSet2, p: u8, brk: bool, c: u8| -> ScanResult {
        if p == 1 {
            let _ = s.advance_state(0xE0);
        } else if p == 2 {
            let _ = s.advance_state(0xE1);
        }
        if brk {
            let _ = s.advance_state(0xF0);
        }
        s.advance_state(c)
    };
    let feed1 = |s: &mut ScancodeSet1, p: u8, brk: bool, t: u8| -> ScanResult {
        if p == 1 {
            let _ = s.advance_state(0xE0);
        } else if p == 2 {
            let _ = s.advance_state(0xE1);
        }
        s.advance_state(t | if brk { 0x80 } else { 0 })
    };
    let r2a = feed2(&mut s2, p1, b1, c1);
    let r2b = feed2(&mut s2, p2, b2, c2);
    let r1a = feed1(&mut s1, p1, b1, t1);
    let r1b = feed1(&mut s1, p2, b2, t2);
    crate::show!("C13 two sequences: set2 ({},{},{:#04x}) ({},{},{:#04x}) -> {:?} {:?}; set1 -> {:?} {:?}", p1, b1, c1, p2, b2, c2, r2a, r2b, r1a, r1b);
    // a translated byte that collides with a Set 1 prefix (E0/E1) is not a complete sequence there
    let collide = |p: u8, brk: bool, t: u8| p == 0 && brk && (t == 0x60 || t == 0x61);
    kani::assume(!collide(p1, b1, t1) && !collide(p2, b2, t2));
    if is_key_event(&r2a) {
        assert!(r1a == r2a, "C13: first sequence and its translation decode to different events");
    }
    if is_key_event(&r2b) {
        assert!(r1b == r2b, "C13: a sequence following another one and its translation decode to different events");
    }
    kani::cover!(r2a.is_err() && is_key_event(&r2b));
}

/// Thorough: composed, above the scancode layer.  A symbolic Set 2 sequence and its translation are
/// fed to two Keyboards with the same layout; events, modifiers and characters coincide.
#[kani::proof]
pub fn c13_t_composed() {
    use pc_keyboard::layouts::*;
    let p: u8 = kani::any();
    kani::assume(p < 3);
    let c: u8 = kani::any();
    let brk: bool = kani::any();
    let t = XLAT[c as usize];
    kani::assume(t != 0xFF);
    kani::assume(!known_xlat_forward(p, c));
    let h = any_mode();
    let mut k2 = Keyboard::new(ctx2(set2_ctx(p, brk)), Uk105Key, h);
    let mut k1 = Keyboard::new(ctx1(p), Uk105Key, h);
    let e2 = k2.add_byte(c);
    let e1 = k1.add_byte(t | if brk { 0x80 } else { 0 });
    if let Ok(Some(ev2)) = e2.clone() {
        if ev2.state != KeyState::SingleShot {
            assert!(e1 == e2, "C13: composed - different events");
            if let Ok(Some(ev1)) = e1 {
                let d2 = k2.process_keyevent(ev2);
                let d1 = k1.process_keyevent(ev1);
                crate::show!("C13 composed prefix={} code={:#04x} break={} decoded {:?} / {:?}", p, c, brk, d2, d1);
                assert!(d1 == d2, "C13: composed - different decoded keys");
                assert!(k1.get_modifiers() == k2.get_modifiers(), "C13: composed - different modifiers");
            }
        }
    }
    kani::cover!(is_key_event(&e2));
}
