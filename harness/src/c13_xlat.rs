//! C13: Set 1 and Set 2 decode consistently under the i8042 translation.
use crate::gen_known::*;
use crate::gen_oracle::*;
use crate::refmodel::*;
use crate::sym::*;
use pc_keyboard::*;

/// Set 2 context for prefix class p (0 plain, 1 E0, 2 E1) and make/break.
fn set2_ctx(p: u8, brk: bool) -> u8 {
    match (p, brk) {
        (0, false) => 0,
        (0, true) => 2,
        (1, false) => 1,
        (1, true) => 3,
        (_, false) => 4,
        (_, true) => 5,
    }
}

fn is_key_event(r: &ScanResult) -> bool {
    match r {
        Ok(Some(ev)) => ev.state != KeyState::SingleShot,
        _ => false,
    }
}

fn c13_forward(p: u8) {
    let c: u8 = kani::any();
    let brk: bool = kani::any();
    let t = XLAT[c as usize];
    kani::assume(t != 0xFF);
    kani::assume(!known_xlat_forward(p, c));
    let mut s2 = ctx2(set2_ctx(p, brk));
    let e2 = s2.advance_state(c);
    let mut s1 = ctx1(p);
    let b1 = t | if brk { 0x80 } else { 0 };
    let e1 = s1.advance_state(b1);
    crate::show!("C13 forward prefix={} break={} set2 code={:#04x} -> {:?}; translated set1 byte={:#04x} -> {:?}", p, brk, c, e2, b1, e1);
    if is_key_event(&e2) {
        assert!(e1 == e2, "C13: Set 2 sequence and its i8042 translation decode to different events");
    }
    kani::cover!(is_key_event(&e2) && brk);
}

fn c13_backward(p: u8) {
    let t: u8 = kani::any();
    kani::assume(t < 0x80);
    let brk: bool = kani::any();
    kani::assume(!known_xlat_backward(p, t));
    let mut s1 = ctx1(p);
    let b1 = t | if brk { 0x80 } else { 0 };
    let e1 = s1.advance_state(b1);
    let pre = XLAT_INV[t as usize];
    let mut matched = false;
    let mut i = 0;
    while i < XLAT_MAX_PRE {
        if pre[i] != 0xFF {
            let mut s2 = ctx2(set2_ctx(p, brk));
            if s2.advance_state(pre[i]) == e1 {
                matched = true;
            }
        }
        i += 1;
    }
    crate::show!("C13 backward prefix={} break={} set1 byte={:#04x} -> {:?}; set2 preimages={:?} matched={}", p, brk, b1, e1, pre, matched);
    if is_key_event(&e1) {
        assert!(matched, "C13: Set 1 sequence decodes to an event that no Set 2 preimage under the i8042 translation gives");
    }
    kani::cover!(is_key_event(&e1) && brk);
}

macro_rules! c13_p {
    ($f:ident, $b:ident, $p:expr) => {
        #[kani::proof]
        pub fn $f() {
            c13_forward($p);
        }
        #[kani::proof]
        #[kani::unwind(4)]
        pub fn $b() {
            c13_backward($p);
        }
    };
}
c13_p!(c13_q_forward_plain, c13_q_backward_plain, 0);
c13_p!(c13_q_forward_e0, c13_q_backward_e0, 1);
c13_p!(c13_q_forward_e1, c13_q_backward_e1, 2);

/// Thorough: composed, above the scancode layer.  A symbolic Set 2 sequence and its translation are
/// fed to two Keyboards with the same layout; events, modifiers and characters coincide.
#[kani::proof]
pub fn c13_t_composed() {
    use pc_keyboard::layouts::*;
    let p: u8 = kani::any();
    kani::assume(p < 3);
    let c: u8 = kani::any();
    let brk: bool = kani::any();
    let t = XLAT[c as usize];
    kani::assume(t != 0xFF);
    kani::assume(!known_xlat_forward(p, c));
    let h = any_mode();
    let mut k2 = Keyboard::new(ctx2(set2_ctx(p, brk)), Uk105Key, h);
    let mut k1 = Keyboard::new(ctx1(p), Uk105Key, h);
    let e2 = k2.add_byte(c);
    let e1 = k1.add_byte(t | if brk { 0x80 } else { 0 });
    if let Ok(Some(ev2)) = e2.clone() {
        if ev2.state != KeyState::SingleShot {
            assert!(e1 == e2, "C13: composed - different events");
            if let Ok(Some(ev1)) = e1 {
                let d2 = k2.process_keyevent(ev2);
                let d1 = k1.process_keyevent(ev1);
                crate::show!("C13 composed prefix={} code={:#04x} break={} decoded {:?} / {:?}", p, c, brk, d2, d1);
                assert!(d1 == d2, "C13: composed - different decoded keys");
                assert!(k1.get_modifiers() == k2.get_modifiers(), "C13: composed - different modifiers");
            }
        }
    }
    kani::cover!(is_key_event(&e2));
}
