//! C14: one decoded key per press, none per release, via the current layout and mode.
use crate::refmodel::*;
use crate::spy::*;
use crate::sym::*;
use core::cell::Cell;
use pc_keyboard::*;

/// The modifier record the decoder currently holds, read off a *clone* by pressing a key that goes
/// to the recording layout (its answer encodes the record it was handed).  C14 is about what is
/// returned under "the current modifier state"; which state the history *should* have produced is
/// C04's business, so the C14 harnesses take the current state from the decoder itself.
fn current_mods<'a>(d: &EventDecoder<Spy<'a>>) -> Option<Modifiers> {
    let mut c = d.clone();
    match c.process_keyevent(KeyEvent::new(KeyCode::F1, KeyState::Down)) {
        Some(DecodedKey::Unicode(ch)) => Some(mods_from_bits((((ch as u32).wrapping_sub(0x40000)) >> 1) & 0x1FF)),
        _ => None,
    }
}

#[kani::proof]
pub fn c14_q_eventdecoder() {
    let calls = Cell::new(0);
    let m = any_mods();
    let h0 = any_mode();
    let mut d = evdec(Spy { tag: false, calls: &calls }, &m, h0);
    // optional reconfiguration just before the event
    let mut mode = h0;
    let mut tag = false;
    if kani::any() {
        mode = any_mode();
        d.set_ctrl_handling(mode);
    }
    if kani::any() {
        tag = kani::any();
        d.change_layout(Spy { tag, calls: &calls });
    }
    assert!(d.get_ctrl_handling() == mode, "C14: get_ctrl_handling does not return what was set");
    let cur = current_mods(&d);
    assert!(cur.is_some(), "C14: an ordinary key press was not answered by the installed layout");
    let m = cur.unwrap_or(m);
    let k = any_key();
    let s = any_state();
    let n0 = calls.get();
    let out = d.process_keyevent(KeyEvent::new(k, s));
    let n1 = calls.get();
    crate::show!("C14 mods={:?} mode0={:?} mode={:?} tag={} key={:?} state={:?} out={:?} layout_calls={}", m, h0, mode, tag, k, s, out, n1.wrapping_sub(n0));
    if s != KeyState::Down {
        assert!(out.is_none(), "C14: a release or one-shot event produced a decoded key");
        assert!(n1 == n0, "C14: the layout was consulted for a release or one-shot event");
    } else if k == KeyCode::NumpadLock && m.rctrl2 {
        assert!(out == Some(DecodedKey::RawKey(KeyCode::PauseBreak)), "C14: NumLock under the hidden Pause-Ctrl must yield PauseBreak");
        assert!(n1 == n0);
    } else if is_modifier_key(k) {
        assert!(out == Some(DecodedKey::RawKey(k)), "C14: a modifier/lock press must yield its own raw key");
        assert!(n1 == n0, "C14: the layout was consulted for a modifier key");
    } else {
        assert!(out == Some(enc(tag, k, &m, mode)), "C14: press not decoded by the current layout with the current modifiers and mode");
        assert!(n1 == n0.wrapping_add(1), "C14: the layout must be consulted exactly once per press");
    }
    kani::cover!(s == KeyState::Down && !is_modifier_key(k) && tag && mode != h0);
    kani::cover!(s == KeyState::SingleShot);
}

/// C14 after a symbolic two-event history (so decoder state that only builds up over several events
/// - a cache, a repeat counter - is inside the query): modifier state reached by presses, then two
/// arbitrary events, then an optional reconfiguration, then the observed event.
#[kani::proof]
pub fn c14_q_after_history() {
    let calls = Cell::new(0);
    let m0 = any_mods();
    let h0 = any_mode();
    let mut d = evdec(Spy { tag: false, calls: &calls }, &m0, h0);
    let (k1, s1) = (any_key(), any_state());
    let (k2, s2) = (any_key(), any_state());
    let _ = d.process_keyevent(KeyEvent::new(k1, s1));
    let _ = d.process_keyevent(KeyEvent::new(k2, s2));
    let mut mode = h0;
    let mut tag = false;
    if kani::any() {
        mode = any_mode();
        d.set_ctrl_handling(mode);
    }
    if kani::any() {
        tag = kani::any();
        d.change_layout(Spy { tag, calls: &calls });
    }
    let cur = current_mods(&d);
    assert!(cur.is_some(), "C14: an ordinary key press was not answered by the installed layout (after a history)");
    let m = cur.unwrap_or(m0.clone());
    let k = any_key();
    let s = any_state();
    let n0 = calls.get();
    let out = d.process_keyevent(KeyEvent::new(k, s));
    let n1 = calls.get();
    crate::show!("C14 history mods0={:?} mode0={:?} ev1=({:?},{:?}) ev2=({:?},{:?}) mode={:?} tag={} key={:?} state={:?} out={:?} layout_calls={}", m0, h0, k1, s1, k2, s2, mode, tag, k, s, out, n1.wrapping_sub(n0));
    if s != KeyState::Down {
        assert!(out.is_none() && n1 == n0, "C14: a release or one-shot event produced a decoded key (after a history)");
    } else if k == KeyCode::NumpadLock && m.rctrl2 {
        assert!(out == Some(DecodedKey::RawKey(KeyCode::PauseBreak)) && n1 == n0, "C14: Pause inference after a history");
    } else if is_modifier_key(k) {
        assert!(out == Some(DecodedKey::RawKey(k)) && n1 == n0, "C14: a modifier/lock press must yield its own raw key (after a history)");
    } else {
        assert!(out == Some(enc(tag, k, &m, mode)), "C14: press after a history not decoded by the current layout with the current modifiers and mode");
        assert!(n1 == n0.wrapping_add(1), "C14: the layout must be consulted exactly once per press (after a history)");
    }
    kani::cover!(s == KeyState::Down && k == k2 && k == k1 && s1 == KeyState::Down && s2 == KeyState::Down && !is_modifier_key(k) && mode != h0);
}

#[kani::proof]
pub fn c14_q_keyboard() {
    let calls = Cell::new(0);
    let m = any_mods();
    let h0 = any_mode();
    let mut kb = kbd_with_mods(ScancodeSet2::new(), Spy { tag: true, calls: &calls }, &m, h0);
    let mut mode = h0;
    if kani::any() {
        mode = any_mode();
        kb.set_ctrl_handling(mode);
    }
    assert!(kb.get_ctrl_handling() == mode, "C14: Keyboard::get_ctrl_handling does not return what was set");
    // "the current modifier state" is what the Keyboard itself reports
    let m = kb.get_modifiers().clone();
    let k = any_key();
    let s = any_state();
    let n0 = calls.get();
    let out = kb.process_keyevent(KeyEvent::new(k, s));
    let n1 = calls.get();
    crate::show!("C14 keyboard mods={:?} mode0={:?} mode={:?} key={:?} state={:?} out={:?}", m, h0, mode, k, s, out);
    if s != KeyState::Down {
        assert!(out.is_none() && n1 == n0, "C14: a release or one-shot event produced a decoded key");
    } else if k == KeyCode::NumpadLock && m.rctrl2 {
        assert!(out == Some(DecodedKey::RawKey(KeyCode::PauseBreak)) && n1 == n0);
    } else if is_modifier_key(k) {
        assert!(out == Some(DecodedKey::RawKey(k)) && n1 == n0, "C14: a modifier/lock press must yield its own raw key");
    } else {
        assert!(out == Some(enc(true, k, &m, mode)), "C14: Keyboard press not decoded by the layout with the current modifiers and mode");
        assert!(n1 == n0.wrapping_add(1));
    }
    kani::cover!(s == KeyState::Down && !is_modifier_key(k) && mode != h0);
}

/// Thorough: with a real layout wrapped in AnyLayout, change_layout switches on the very next key.
#[kani::proof]
pub fn c14_t_change_real_layout() {
    use pc_keyboard::layouts::*;
    let m = any_mods();
    let h = any_mode();
    let mut d = evdec(AnyLayout::Uk105Key(Uk105Key), &m, h);
    let k = any_key();
    kani::assume(!is_modifier_key(k));
    let o1 = d.process_keyevent(KeyEvent::new(k, KeyState::Down));
    d.change_layout(AnyLayout::Azerty(Azerty));
    let o2 = d.process_keyevent(KeyEvent::new(k, KeyState::Down));
    crate::show!("C14 change_layout key={:?} mods={:?} mode={:?} uk={:?} azerty={:?}", k, m, h, o1, o2);
    assert!(o1 == Some(Uk105Key.map_keycode(k, &m, h)), "C14: installed layout not used");
    assert!(o2 == Some(Azerty.map_keycode(k, &m, h)), "C14: change_layout did not take effect on the next key");
    kani::cover!(o1 != o2);
}

/// Thorough: the same after a symbolic four-event history (all 124^4 x 3^4 histories in one query).
#[kani::proof]
pub fn c14_t_after_four_events() {
    let calls = Cell::new(0);
    let m0 = any_mods();
    let h0 = any_mode();
    let mut d = evdec(Spy { tag: false, calls: &calls }, &m0, h0);
    let mut i = 0;
    while i < 4 {
        let (k, s) = (any_key(), any_state());
        let _ = d.process_keyevent(KeyEvent::new(k, s));
        i += 1;
    }
    let mode = any_mode();
    d.set_ctrl_handling(mode);
    let tag: bool = kani::any();
    d.change_layout(Spy { tag, calls: &calls });
    let m = current_mods(&d).unwrap_or(m0.clone());
    let k = any_key();
    kani::assume(!is_modifier_key(k));
    let n0 = calls.get();
    let out = d.process_keyevent(KeyEvent::new(k, KeyState::Down));
    crate::show!("C14 four-event history mods0={:?} then key={:?} mode={:?} tag={} out={:?} expected mods={:?}", m0, k, mode, tag, out, m);
    assert!(out == Some(enc(tag, k, &m, mode)), "C14: press after a four-event history not decoded by the current layout with the current modifiers and mode");
    assert!(calls.get() == n0.wrapping_add(1), "C14: layout not consulted exactly once after a four-event history");
    kani::cover!(m != m0);
}
