//! C15: numpad follows NumLock; editing keys type the same control characters everywhere.
use crate::refmodel::*;
use crate::sym::*;
use pc_keyboard::layouts::*;
use pc_keyboard::*;

/// Decimal separators per layout (from the national standards; German accepts either).
pub fn decimal_ok(name: &str, c: char) -> bool {
    match name {
        "No105Key" | "FiSe105Key" => c == ',',
        "De105Key" => c == ',' || c == '.',
        _ => c == '.',
    }
}

pub fn c15_check<L: KeyboardLayout>(name: &str, dec: &str, l: &L) {
    let k = any_key();
    let m = any_mods();
    let h = any_mode();
    let out = l.map_keycode(k, &m, h);
    crate::show!("C15 {} key={:?} mods={:?} mode={:?} out={:?}", name, k, m, h, out);
    if let Some((digit, alias)) = numpad_digit(k) {
        if m.numlock {
            assert!(out == DecodedKey::Unicode(digit), "C15: numpad digit with NumLock on");
        } else {
            match alias {
                Some(a) => assert!(out == DecodedKey::RawKey(a), "C15: numpad navigation alias with NumLock off"),
                None => assert!(out == DecodedKey::Unicode('5') || out == DecodedKey::RawKey(KeyCode::Numpad5), "C15: Numpad5 with NumLock off"),
            }
        }
    }
    match k {
        KeyCode::NumpadDivide => assert!(out == DecodedKey::Unicode('/'), "C15: numpad /"),
        KeyCode::NumpadMultiply => assert!(out == DecodedKey::Unicode('*'), "C15: numpad *"),
        KeyCode::NumpadSubtract => assert!(out == DecodedKey::Unicode('-'), "C15: numpad -"),
        KeyCode::NumpadAdd => assert!(out == DecodedKey::Unicode('+'), "C15: numpad +"),
        KeyCode::NumpadEnter => assert!(out == l.map_keycode(KeyCode::Return, &m, h), "C15: numpad Enter must type what Return types"),
        KeyCode::NumpadPeriod => {
            if m.numlock {
                match out {
                    DecodedKey::Unicode(c) => assert!(decimal_ok(dec, c), "C15: numpad decimal separator"),
                    _ => assert!(false, "C15: numpad decimal key must type a character with NumLock on"),
                }
            } else {
                assert!(out == DecodedKey::Unicode('\u{7f}'), "C15: numpad decimal key must type Delete with NumLock off");
            }
        }
        KeyCode::Escape => assert!(out == DecodedKey::Unicode('\u{1b}'), "C15: Escape"),
        KeyCode::Backspace => assert!(out == DecodedKey::Unicode('\u{8}'), "C15: Backspace"),
        KeyCode::Tab => assert!(out == DecodedKey::Unicode('\u{9}'), "C15: Tab"),
        KeyCode::Return => assert!(out == DecodedKey::Unicode('\u{a}'), "C15: Return"),
        KeyCode::Delete => assert!(out == DecodedKey::Unicode('\u{7f}'), "C15: Delete"),
        KeyCode::Spacebar => assert!(out == DecodedKey::Unicode(' '), "C15: Space"),
        _ => {}
    }
    kani::cover!(numpad_digit(k).is_some() && !m.numlock);
    kani::cover!(k == KeyCode::NumpadPeriod && m.numlock);
}

macro_rules! c15_layout {
    ($short:ident, $ty:ident) => {
        pub mod $short {
            use super::*;
            #[kani::proof]
            pub fn c15_q_numpad() {
                c15_check(stringify!($ty), stringify!($ty), &$ty);
            }
            #[kani::proof]
            pub fn c15_q_any() {
                c15_check(concat!("AnyLayout::", stringify!($ty)), stringify!($ty), &AnyLayout::$ty($ty));
            }
            #[kani::proof]
            pub fn c15_q_anyref() {
                let a = AnyLayout::$ty($ty);
                c15_check(concat!("&AnyLayout::", stringify!($ty)), stringify!($ty), &&a);
            }
        }
    };
}
crate::for_layouts!(c15_layout);
