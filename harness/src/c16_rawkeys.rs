//! C16: keys without a character always decode to their own raw key.
use crate::refmodel::*;
use crate::sym::*;
use pc_keyboard::layouts::*;
use pc_keyboard::*;

pub fn c16_check<L: KeyboardLayout>(name: &str, l: &L) {
    let k = any_key();
    let m = any_mods();
    let h = any_mode();
    let out = l.map_keycode(k, &m, h);
    crate::show!("C16 {} key={:?} mods={:?} mode={:?} out={:?}", name, k, m, h, out);
    if let DecodedKey::RawKey(r) = out {
        let alias_ok = match numpad_digit(k) {
            Some((_, Some(a))) => !m.numlock && r == a,
            _ => false,
        };
        assert!(r == k || alias_ok, "C16: a key decoded to some other key's raw code");
    }
    if is_characterless_key(k) {
        assert!(out == DecodedKey::RawKey(k), "C16: a character-less key did not decode to its own raw key");
    }
    kani::cover!(is_characterless_key(k));
    kani::cover!(matches!(out, DecodedKey::RawKey(r) if r != k));
}

macro_rules! c16_layout {
    ($short:ident, $ty:ident) => {
        pub mod $short {
            use super::*;
            #[kani::proof]
            pub fn c16_q_raw() {
                c16_check(stringify!($ty), &$ty);
            }
            #[kani::proof]
            pub fn c16_q_any() {
                c16_check(concat!("AnyLayout::", stringify!($ty)), &AnyLayout::$ty($ty));
            }
            #[kani::proof]
            pub fn c16_q_anyref() {
                let a = AnyLayout::$ty($ty);
                c16_check(concat!("&AnyLayout::", stringify!($ty)), &&a);
            }
        }
    };
}
crate::for_layouts!(c16_layout);
