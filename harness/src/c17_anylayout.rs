//! C17: AnyLayout behaves exactly as the layout it wraps (by value and by reference).
use crate::sym::*;
use pc_keyboard::layouts::*;
use pc_keyboard::*;

macro_rules! c17_layout {
    ($short:ident, $ty:ident) => {
        pub mod $short {
            use super::*;
            #[kani::proof]
            pub fn c17_q_value() {
                let k = any_key();
                let m = any_mods();
                let h = any_mode();
                let a = AnyLayout::$ty($ty);
                let got = a.map_keycode(k, &m, h);
                let want = $ty.map_keycode(k, &m, h);
                crate::show!("C17 AnyLayout::{} key={:?} mods={:?} mode={:?} got={:?} want={:?}", stringify!($ty), k, m, h, got, want);
                assert!(got == want, "C17: AnyLayout (by value) differs from the wrapped layout");
                kani::cover!(matches!(got, DecodedKey::Unicode(_)));
            }
            #[kani::proof]
            pub fn c17_q_reference() {
                let k = any_key();
                let m = any_mods();
                let h = any_mode();
                let a = AnyLayout::$ty($ty);
                let r = &a;
                let got = r.map_keycode(k, &m, h);
                let want = $ty.map_keycode(k, &m, h);
                crate::show!("C17 &AnyLayout::{} key={:?} mods={:?} mode={:?} got={:?} want={:?}", stringify!($ty), k, m, h, got, want);
                assert!(got == want, "C17: &AnyLayout differs from the wrapped layout");
                kani::cover!(matches!(got, DecodedKey::Unicode(_)));
            }
            /// thorough: the same through a live EventDecoder holding the wrapper
            #[kani::proof]
            pub fn c17_t_eventdecoder() {
                let k = any_key();
                kani::assume(!crate::refmodel::is_modifier_key(k));
                let m = any_mods();
                let h = any_mode();
                let a = AnyLayout::$ty($ty);
                let mut d1 = evdec(&a, &m, h);
                let mut d2 = evdec($ty, &m, h);
                let o1 = d1.process_keyevent(KeyEvent::new(k, KeyState::Down));
                let o2 = d2.process_keyevent(KeyEvent::new(k, KeyState::Down));
                crate::show!("C17 evdec {} key={:?} mods={:?} mode={:?} any={:?} direct={:?}", stringify!($ty), k, m, h, o1, o2);
                assert!(o1 == o2, "C17: EventDecoder<&AnyLayout> differs from EventDecoder<layout>");
                kani::cover!(true);
            }
        }
    };
}
crate::for_layouts!(c17_layout);
