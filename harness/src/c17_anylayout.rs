//! C17: AnyLayout behaves exactly as the layout it wraps (by value and by reference).
use crate::sym::*;
use pc_keyboard::layouts::*;
use pc_keyboard::*;

macro_rules! c17_layout {
    ($short:ident, $ty:ident) => {
        pub mod $short {
            use super::*;
            #[kani::proof]
            pub fn c17_q_value() {
                let k = any_key();
                let m = any_mods();
                let h = any_mode();
                let a = AnyLayout::$ty($ty);
                let got = a.map_keycode(k, &m, h);
                let want = $ty.map_keycode(k, &m, h);
                crate::show!("C17 AnyLayout::{} key={:?} mods={:?} mode={:?} got={:?} want={:?}", stringify!($ty), k, m, h, got, want);
                assert!(got == want, "C17: AnyLayout (by value) differs from the wrapped layout");
                kani::cover!(matches!(got, DecodedKey::Unicode(_)));
            }
            #[kani::proof]
            pub fn c17_q_reference() {
                let k = any_key();
                let m = any_mods();
                let h = any_mode();
                let a = AnyLayout::$ty($ty);
                let r = &a;
                // UFCS: plain method syntax on `r` would resolve to the by-value impl
                let got = <&AnyLayout as KeyboardLayout>::map_keycode(&r, k, &m, h);
                let want = $ty.map_keycode(k, &m, h);
                crate::show!("C17 &AnyLayout::{} key={:?} mods={:?} mode={:?} got={:?} want={:?}", stringify!($ty), k, m, h, got, want);
                assert!(got == want, "C17: &AnyLayout differs from the wrapped layout");
                kani::cover!(matches!(got, DecodedKey::Unicode(_)));
            }
            /// The wrapper answers like the wrapped layout on *every* call, not only on the first one from
            /// a fresh program state: one arbitrary earlier query (any key, modifiers and mode, by value
            /// or by reference) precedes the compared one.  Seed C17-r4m1 keeps a one-entry global memo of
            /// the last lookup keyed without the Ctrl mode; each call on its own, and any sequence with an
            /// unchanged mode, agrees with the wrapped layout.
            #[kani::proof]
            pub fn c17_q_after_earlier_query() {
                let a = AnyLayout::$ty($ty);
                let r = &a;
                let (k1, m1, h1) = (any_key(), any_mods(), any_mode());
                let first_by_ref: bool = kani::any();
                let _ = if first_by_ref {
                    <&AnyLayout as KeyboardLayout>::map_keycode(&r, k1, &m1, h1)
                } else {
                    a.map_keycode(k1, &m1, h1)
                };
                let (k, m, h) = (any_key(), any_mods(), any_mode());
                let by_ref: bool = kani::any();
                let got = if by_ref {
                    <&AnyLayout as KeyboardLayout>::map_keycode(&r, k, &m, h)
                } else {
                    a.map_keycode(k, &m, h)
                };
                let want = $ty.map_keycode(k, &m, h);
                crate::show!("C17 AnyLayout::{} earlier query key={:?} mods={:?} mode={:?} by_ref={}; then key={:?} mods={:?} mode={:?} by_ref={} got={:?} want={:?}", stringify!($ty), k1, m1, h1, first_by_ref, k, m, h, by_ref, got, want);
                assert!(got == want, "C17: AnyLayout differs from the wrapped layout after an earlier query");
                kani::cover!(k == k1 && matches!(got, DecodedKey::Unicode(_)));
            }
            /// Switching the variant on a live decoder (after a symbolic two-event history) switches to
            /// that layout and no other, on the very next key: a decoder that started with another
            /// variant and is switched to X answers like one that held X all along (both get the same
            /// change_layout call, so whatever else change_layout does is not C17's business).
            #[kani::proof]
            pub fn c17_q_switch_variant() {
                use crate::refmodel::is_modifier_key;
                let m0 = any_mods();
                let h = any_mode();
                let mut d1 = evdec(AnyLayout::Jis109Key(Jis109Key), &m0, h);
                let mut d2 = evdec(AnyLayout::$ty($ty), &m0, h);
                let (k1, s1) = (any_key(), any_state());
                let (k2, s2) = (any_key(), any_state());
                let _ = d1.process_keyevent(KeyEvent::new(k1, s1));
                let _ = d1.process_keyevent(KeyEvent::new(k2, s2));
                let _ = d2.process_keyevent(KeyEvent::new(k1, s1));
                let _ = d2.process_keyevent(KeyEvent::new(k2, s2));
                d1.change_layout(AnyLayout::$ty($ty));
                d2.change_layout(AnyLayout::$ty($ty));
                let k = any_key();
                kani::assume(!is_modifier_key(k));
                let got = d1.process_keyevent(KeyEvent::new(k, KeyState::Down));
                let want = d2.process_keyevent(KeyEvent::new(k, KeyState::Down));
                crate::show!("C17 switch Jis109Key -> {} pressed={:?} ev1=({:?},{:?}) ev2=({:?},{:?}) key={:?} mode={:?} switched decoder={:?} decoder that always held it={:?}", stringify!($ty), m0, k1, s1, k2, s2, k, h, got, want);
                assert!(got == want, "C17: after switching the wrapper's variant the next key is not decoded by that layout");
                kani::cover!(k == k1 && k == k2 && s1 == KeyState::Down && s2 == KeyState::Down);
            }
            /// A live decoder holding the wrapper (by reference / by value) answers exactly like a live
            /// decoder holding the wrapped layout itself, for the same pressed modifiers, the same
            /// two-event history and the same key - whatever the decoder asks of its layout.
            #[kani::proof]
            pub fn c17_q_decoder_with_wrapper_equals_decoder_with_layout() {
                use crate::refmodel::is_modifier_key;
                let m0 = any_mods();
                let h = any_mode();
                let a = AnyLayout::$ty($ty);
                let by_ref: bool = kani::any();
                let (k1, s1) = (any_key(), any_state());
                let (k2, s2) = (any_key(), any_state());
                let k = any_key();
                kani::assume(!is_modifier_key(k));
                let mut d2 = evdec($ty, &m0, h);
                let _ = d2.process_keyevent(KeyEvent::new(k1, s1));
                let _ = d2.process_keyevent(KeyEvent::new(k2, s2));
                let want = d2.process_keyevent(KeyEvent::new(k, KeyState::Down));
                let got = if by_ref {
                    let mut d1 = evdec(&a, &m0, h);
                    let _ = d1.process_keyevent(KeyEvent::new(k1, s1));
                    let _ = d1.process_keyevent(KeyEvent::new(k2, s2));
                    d1.process_keyevent(KeyEvent::new(k, KeyState::Down))
                } else {
                    let mut d1 = evdec(AnyLayout::$ty($ty), &m0, h);
                    let _ = d1.process_keyevent(KeyEvent::new(k1, s1));
                    let _ = d1.process_keyevent(KeyEvent::new(k2, s2));
                    d1.process_keyevent(KeyEvent::new(k, KeyState::Down))
                };
                crate::show!("C17 live decoders {} by_ref={} pressed={:?} ev1=({:?},{:?}) ev2=({:?},{:?}) key={:?} mode={:?} wrapper={:?} layout={:?}", stringify!($ty), by_ref, m0, k1, s1, k2, s2, k, h, got, want);
                assert!(got == want, "C17: a decoder holding the wrapper answers differently from a decoder holding the wrapped layout");
                kani::cover!(by_ref && m0.capslock);
            }
            /// thorough: the same through a live EventDecoder holding the wrapper
            #[kani::proof]
            pub fn c17_t_eventdecoder() {
                let k = any_key();
                kani::assume(!crate::refmodel::is_modifier_key(k));
                let m = any_mods();
                let h = any_mode();
                let a = AnyLayout::$ty($ty);
                let mut d1 = evdec(&a, &m, h);
                let mut d2 = evdec($ty, &m, h);
                let o1 = d1.process_keyevent(KeyEvent::new(k, KeyState::Down));
                let o2 = d2.process_keyevent(KeyEvent::new(k, KeyState::Down));
                crate::show!("C17 evdec {} key={:?} mods={:?} mode={:?} any={:?} direct={:?}", stringify!($ty), k, m, h, o1, o2);
                assert!(o1 == o2, "C17: EventDecoder<&AnyLayout> differs from EventDecoder<layout>");
                kani::cover!(true);
            }
        }
    };
}
crate::for_layouts!(c17_layout);
