//! C18: Keyboard equals its three stages wired in sequence, with the stages isolated.
//!
//! One step from an arbitrary product state: the frame stage is any partial frame (k <= 10 symbolic
//! bits), the scancode stage any canonical prefix context, the event stage any of the 1024
//! modifier/mode states.  After each operation the Keyboard's stages must be structurally equal to
//! the separately driven stages - which also says that stages an operation does not feed are
//! untouched.
use crate::refmodel::*;
use crate::spy::*;
use crate::sym::*;
use core::cell::Cell;
use pc_keyboard::*;

macro_rules! c18_set {
    ($modname:ident, $set:ty, $ctx:ident, $nctx:expr) => {
        pub mod $modname {
            use super::*;

            struct Parts<'a> {
                p: Ps2Decoder,
                s: $set,
                e: EventDecoder<Spy<'a>>,
            }

            fn parts<'a>(calls: &'a Cell<u32>) -> Parts<'a> {
                let k: u8 = kani::any();
                kani::assume(k <= 10);
                let i: u8 = kani::any();
                kani::assume(i < $nctx);
                let m = any_mods();
                let h = any_mode();
                Parts { p: partial(k), s: $ctx(i), e: evdec(Spy { tag: false, calls }, &m, h) }
            }

            fn assemble<'a>(x: &Parts<'a>) -> Keyboard<Spy<'a>, $set> {
                Keyboard::verif_from_stages(x.p.clone(), x.s.clone(), x.e.clone())
            }

            fn same<'a>(kb: &Keyboard<Spy<'a>, $set>, x: &Parts<'a>) -> bool {
                let (p, s, e) = kb.verif_stages();
                *p == x.p && *s == x.s && *e == x.e
            }

            #[kani::proof]
            pub fn c18_q_add_bit() {
                let calls = Cell::new(0);
                let mut x = parts(&calls);
                let mut kb = assemble(&x);
                let b: bool = kani::any();
                let got = kb.add_bit(b);
                let want = match x.p.add_bit(b) {
                    Err(e) => Err(e),
                    Ok(None) => Ok(None),
                    Ok(Some(byte)) => x.s.advance_state(byte),
                };
                crate::show!("C18 add_bit({}) got={:?} want={:?}", b, got, want);
                assert!(got == want, "C18: Keyboard::add_bit differs from frame stage then scancode stage");
                assert!(same(&kb, &x), "C18: Keyboard::add_bit disturbed a stage it does not feed (or fed a rejected frame on)");
                kani::cover!(matches!(got, Ok(Some(_))));
                kani::cover!(matches!(got, Err(Error::ParityError)));
            }

            #[kani::proof]
            pub fn c18_q_add_word() {
                let calls = Cell::new(0);
                let mut x = parts(&calls);
                let mut kb = assemble(&x);
                let w: u16 = kani::any(); // every 16-bit word: the Keyboard must mirror the frame stage on all of them
                let got = kb.add_word(w);
                let want = match x.p.add_word(w) {
                    Err(e) => Err(e),
                    Ok(byte) => x.s.advance_state(byte),
                };
                crate::show!("C18 add_word({:#06x}) got={:?} want={:?}", w, got, want);
                assert!(got == want, "C18: Keyboard::add_word differs from frame check then scancode stage");
                assert!(same(&kb, &x), "C18: Keyboard::add_word disturbed a stage it does not feed (or fed a rejected frame on)");
                kani::cover!(matches!(got, Ok(Some(_))));
                kani::cover!(matches!(got, Err(Error::BadStopBit)));
            }

            #[kani::proof]
            pub fn c18_q_add_byte() {
                let calls = Cell::new(0);
                let mut x = parts(&calls);
                let mut kb = assemble(&x);
                let b: u8 = kani::any();
                let got = kb.add_byte(b);
                let want = x.s.advance_state(b);
                crate::show!("C18 add_byte({:#04x}) got={:?} want={:?}", b, got, want);
                assert!(got == want, "C18: Keyboard::add_byte differs from the scancode stage");
                assert!(same(&kb, &x), "C18: Keyboard::add_byte disturbed a stage it does not feed");
                kani::cover!(matches!(got, Ok(Some(_))));
            }

            #[kani::proof]
            pub fn c18_q_process_keyevent() {
                let calls = Cell::new(0);
                let mut x = parts(&calls);
                let mut kb = assemble(&x);
                let k = any_key();
                let st = any_state();
                // the spy's call counter is shared, so run the two sides one after the other and
                // compare the counter increments as well
                let n0 = calls.get();
                let got = kb.process_keyevent(KeyEvent::new(k, st));
                let n1 = calls.get();
                let want = x.e.process_keyevent(KeyEvent::new(k, st));
                let n2 = calls.get();
                crate::show!("C18 process_keyevent({:?},{:?}) got={:?} want={:?}", k, st, got, want);
                assert!(got == want, "C18: Keyboard::process_keyevent differs from the event stage");
                assert!(n1.wrapping_sub(n0) == n2.wrapping_sub(n1));
                assert!(same(&kb, &x), "C18: Keyboard::process_keyevent disturbed a stage it does not feed");
                assert!(*kb.get_modifiers() == *assemble(&x).get_modifiers());
                kani::cover!(matches!(got, Some(DecodedKey::Unicode(_))));
            }

            #[kani::proof]
            pub fn c18_q_clear_and_ctrl() {
                let calls = Cell::new(0);
                let mut x = parts(&calls);
                let mut kb = assemble(&x);
                if kani::any() {
                    kb.clear();
                    x.p.clear();
                    assert!(*kb.verif_stages().0 == Ps2Decoder::new(), "C18: clear() must reset the bit framing");
                } else {
                    let h = any_mode();
                    kb.set_ctrl_handling(h);
                    x.e.set_ctrl_handling(h);
                    assert!(kb.get_ctrl_handling() == h);
                }
                crate::show!("C18 clear/set_ctrl_handling stages={:?}", kb.verif_stages().0);
                assert!(same(&kb, &x), "C18: clear()/set_ctrl_handling() disturbed a stage it does not own");
                kani::cover!(true);
            }

            /// Keyboard::new is the product of the three initial stages.
            #[kani::proof]
            pub fn c18_q_new() {
                let calls = Cell::new(0);
                let h = any_mode();
                let kb = Keyboard::new(<$set>::new(), Spy { tag: false, calls: &calls }, h);
                let (p, s, e) = kb.verif_stages();
                assert!(*p == Ps2Decoder::new(), "C18: new Keyboard frame stage");
                assert!(*s == <$set>::new(), "C18: new Keyboard scancode stage");
                assert!(*e == EventDecoder::new(Spy { tag: false, calls: &calls }, h), "C18: new Keyboard event stage");
                kani::cover!(true);
            }

            /// Thorough: three symbolic operations in a row from new(), public API only, against
            /// three separately driven stages.
            #[kani::proof]
            pub fn c18_t_three_ops() {
                let calls = Cell::new(0);
                let h = any_mode();
                let mut kb = Keyboard::new(<$set>::new(), Spy { tag: false, calls: &calls }, h);
                let mut p = Ps2Decoder::new();
                let mut s = <$set>::new();
                let mut e = EventDecoder::new(Spy { tag: false, calls: &calls }, h);
                let mut n = 0;
                while n < 3 {
                    let op: u8 = kani::any();
                    kani::assume(op < 6);
                    match op {
                        0 => {
                            let b: bool = kani::any();
                            let want = match p.add_bit(b) {
                                Err(er) => Err(er),
                                Ok(None) => Ok(None),
                                Ok(Some(byte)) => s.advance_state(byte),
                            };
                            assert!(kb.add_bit(b) == want, "C18: add_bit in a sequence");
                        }
                        1 => {
                            let w: u16 = kani::any();
                            kani::assume(w < 2048);
                            let want = match p.add_word(w) {
                                Err(er) => Err(er),
                                Ok(byte) => s.advance_state(byte),
                            };
                            assert!(kb.add_word(w) == want, "C18: add_word in a sequence");
                        }
                        2 => {
                            let b: u8 = kani::any();
                            assert!(kb.add_byte(b) == s.advance_state(b), "C18: add_byte in a sequence");
                        }
                        3 => {
                            let k = any_key();
                            let st = any_state();
                            assert!(kb.process_keyevent(KeyEvent::new(k, st)) == e.process_keyevent(KeyEvent::new(k, st)), "C18: process_keyevent in a sequence");
                        }
                        4 => {
                            kb.clear();
                            p.clear();
                        }
                        _ => {
                            let hh = any_mode();
                            kb.set_ctrl_handling(hh);
                            e.set_ctrl_handling(hh);
                        }
                    }
                    n += 1;
                }
                let (kp, ks, ke) = kb.verif_stages();
                assert!(*kp == p && *ks == s && *ke == e, "C18: after three operations the Keyboard differs from its separately driven stages");
                kani::cover!(true);
            }
        }
    };
}

c18_set!(set1, ScancodeSet1, ctx1, 3);
c18_set!(set2, ScancodeSet2, ctx2, 6);
