//! C19: make/break pairing and one-to-one sequences within each scancode set (table-independent).
use crate::refmodel::*;
use crate::sym::*;
use pc_keyboard::*;

fn set2_make_ctx(p: u8) -> u8 {
    match p {
        0 => 0,
        1 => 1,
        _ => 4,
    }
}
fn set2_break_ctx(p: u8) -> u8 {
    match p {
        0 => 2,
        1 => 3,
        _ => 5,
    }
}

fn press_of(r: &ScanResult) -> Option<KeyCode> {
    match r {
        Ok(Some(ev)) if ev.state == KeyState::Down => Some(ev.code),
        _ => None,
    }
}
fn release_of(r: &ScanResult) -> Option<KeyCode> {
    match r {
        Ok(Some(ev)) if ev.state == KeyState::Up => Some(ev.code),
        _ => None,
    }
}

fn c19_set2_pair(p: u8) {
    let c: u8 = kani::any();
    kani::assume(c != 0xE0 && c != 0xE1 && c != 0xF0);
    let status = p == 0 && (c == 0x00 || c == 0xAA);
    let mut sd = ctx2(set2_make_ctx(p));
    let d = sd.advance_state(c);
    let mut su = ctx2(set2_break_ctx(p));
    let u = su.advance_state(c);
    crate::show!("C19 set2 prefix={} code={:#04x} make={:?} break={:?}", p, c, d, u);
    if !status {
        assert!(press_of(&d) == release_of(&u), "C19: press and release of a sequence name different keys (or only one of them decodes)");
        // the statement pairs presses with releases; it says nothing about sequences that are neither
        // (errors, one-shot events), so those are not constrained here
        assert!(release_of(&d).is_none(), "C19: a make sequence decoded as a release");
        assert!(press_of(&u).is_none(), "C19: a break sequence decoded as a press");
    } else {
        // the two one-shot status codes: only "a status byte is not a release" is demanded
        assert!(release_of(&d).is_none(), "C19: a status byte decoded as a release");
    }
    // state identity: after a complete sequence the decoder is back at the start, so pairing from the
    // canonical contexts extends to sequences met anywhere in a stream
    assert!(sd == ScancodeSet2::new() && su == ScancodeSet2::new(), "C19 closure: Set 2 decoder not back in its initial state after a complete sequence");
    kani::cover!(press_of(&d).is_some());
    kani::cover!(d.is_err());
}

fn c19_set1_pair(p: u8) {
    let c: u8 = kani::any();
    kani::assume(c < 0x80);
    let mut sd = ctx1(p);
    let d = sd.advance_state(c);
    let mut su = ctx1(p);
    let u = su.advance_state(c | 0x80);
    crate::show!("C19 set1 prefix={} code={:#04x} make={:?} break={:?}", p, c, d, u);
    let break_is_prefix = p == 0 && (c == 0x60 || c == 0x61);
    if break_is_prefix {
        assert!(press_of(&d).is_none(), "C19: a key whose break byte is a prefix byte can be pressed but never released");
    } else {
        assert!(press_of(&d) == release_of(&u), "C19: press and release of a sequence name different keys (or only one of them decodes)");
        assert!(press_of(&u).is_none(), "C19: a break sequence decoded as a press");
    }
    assert!(release_of(&d).is_none(), "C19: a make sequence decoded as a release");
    assert!(sd == ScancodeSet1::new() && (break_is_prefix || su == ScancodeSet1::new()), "C19 closure: Set 1 decoder not back in its initial state after a complete sequence");
    kani::cover!(press_of(&d).is_some());
    kani::cover!(d.is_err());
}

macro_rules! c19_p {
    ($a:ident, $b:ident, $p:expr) => {
        #[kani::proof]
        pub fn $a() {
            c19_set2_pair($p);
        }
        #[kani::proof]
        pub fn $b() {
            c19_set1_pair($p);
        }
    };
}
c19_p!(c19_q_set2_pair_plain, c19_q_set1_pair_plain, 0);
c19_p!(c19_q_set2_pair_e0, c19_q_set1_pair_e0, 1);
c19_p!(c19_q_set2_pair_e1, c19_q_set1_pair_e1, 2);

/// Injectivity (2-safety): two different complete make sequences never name the same key.
fn c19_set2_inj(p1: u8, p2: u8) {
    let c1: u8 = kani::any();
    let c2: u8 = kani::any();
    kani::assume(p1 != p2 || c1 != c2);
    let mut s1 = ctx2(set2_make_ctx(p1));
    let mut s2 = ctx2(set2_make_ctx(p2));
    let d1 = s1.advance_state(c1);
    let d2 = s2.advance_state(c2);
    crate::show!("C19 set2 injectivity ({},{:#04x}) -> {:?}; ({},{:#04x}) -> {:?}", p1, c1, d1, p2, c2, d2);
    if let (Some(k1), Some(k2)) = (press_of(&d1), press_of(&d2)) {
        assert!(k1 != k2, "C19: two distinct Set 2 sequences denote the same key");
    }
    kani::cover!(press_of(&d1).is_some());
}
fn c19_set1_inj(p1: u8, p2: u8) {
    let c1: u8 = kani::any();
    let c2: u8 = kani::any();
    kani::assume(c1 < 0x80 && c2 < 0x80);
    kani::assume(p1 != p2 || c1 != c2);
    let mut s1 = ctx1(p1);
    let mut s2 = ctx1(p2);
    let d1 = s1.advance_state(c1);
    let d2 = s2.advance_state(c2);
    crate::show!("C19 set1 injectivity ({},{:#04x}) -> {:?}; ({},{:#04x}) -> {:?}", p1, c1, d1, p2, c2, d2);
    if let (Some(k1), Some(k2)) = (press_of(&d1), press_of(&d2)) {
        assert!(k1 != k2, "C19: two distinct Set 1 sequences denote the same key");
    }
    kani::cover!(press_of(&d1).is_some());
}

macro_rules! c19_i {
    ($a:ident, $b:ident, $p1:expr, $p2:expr) => {
        #[kani::proof]
        pub fn $a() {
            c19_set2_inj($p1, $p2);
        }
        #[kani::proof]
        pub fn $b() {
            c19_set1_inj($p1, $p2);
        }
    };
}
c19_i!(c19_q_set2_inj_00, c19_q_set1_inj_00, 0, 0);
c19_i!(c19_q_set2_inj_01, c19_q_set1_inj_01, 0, 1);
c19_i!(c19_q_set2_inj_02, c19_q_set1_inj_02, 0, 2);
c19_i!(c19_q_set2_inj_11, c19_q_set1_inj_11, 1, 1);
c19_i!(c19_q_set2_inj_12, c19_q_set1_inj_12, 1, 2);
c19_i!(c19_q_set2_inj_22, c19_q_set1_inj_22, 2, 2);

/// Thorough: the pairing through whole byte streams from new() (prefix bytes symbolic too).
#[kani::proof]
pub fn c19_t_set2_stream_pairing() {
    let p: u8 = kani::any();
    kani::assume(p < 3);
    let c: u8 = kani::any();
    kani::assume(c != 0xE0 && c != 0xE1 && c != 0xF0);
    kani::assume(!(p == 0 && (c == 0x00 || c == 0xAA)));
    let mut s = ScancodeSet2::new();
    // make sequence then break sequence on one decoder, back to back
    if p == 1 {
        assert!(s.advance_state(0xE0) == Ok(None));
    } else if p == 2 {
        assert!(s.advance_state(0xE1) == Ok(None));
    }
    let d = s.advance_state(c);
    if p == 1 {
        assert!(s.advance_state(0xE0) == Ok(None));
    } else if p == 2 {
        assert!(s.advance_state(0xE1) == Ok(None));
    }
    assert!(s.advance_state(0xF0) == Ok(None));
    let u = s.advance_state(c);
    crate::show!("C19 set2 stream prefix={} code={:#04x} make={:?} break={:?}", p, c, d, u);
    assert!(press_of(&d) == release_of(&u), "C19: back-to-back make and break name different keys");
    kani::cover!(press_of(&d).is_some());
}

/// Deep (also run when a closure assertion fails): pairing of a sequence that follows an arbitrary
/// complete sequence (valid or garbage) on the same decoder.
#[kani::proof]
pub fn c19_t_set2_pairing_after_any_sequence() {
    let p0: u8 = kani::any();
    let p: u8 = kani::any();
    kani::assume(p0 < 6 && p < 3);
    let c0: u8 = kani::any();
    let c: u8 = kani::any();
    kani::assume(c != 0xE0 && c != 0xE1 && c != 0xF0 && c0 != 0xE0 && c0 != 0xE1 && c0 != 0xF0);
    kani::assume(!(p == 0 && (c == 0x00 || c == 0xAA)));
    // two decoders with the same first sequence (prefix context p0, then code c0)
    let mut a = ctx2(p0);
    let mut b = ctx2(p0);
    let ra = a.advance_state(c0);
    let _ = b.advance_state(c0);
    let feed = |s: &mut ScancodeSet2, brk: bool| -> ScanResult {
        if p == 1 {
            let _ = s.advance_state(0xE0);
        } else if p == 2 {
            let _ = s.advance_state(0xE1);
        }
        if brk {
            let _ = s.advance_state(0xF0);
        }
        s.advance_state(c)
    };
    let d = feed(&mut a, false);
    let u = feed(&mut b, true);
    crate::show!("C19 set2 after ({},{:#04x})->{:?}: prefix={} code={:#04x} make={:?} break={:?}", p0, c0, ra, p, c, d, u);
    assert!(press_of(&d) == release_of(&u), "C19: after another sequence, press and release of a sequence name different keys (or only one of them decodes)");
    kani::cover!(ra.is_err() && press_of(&d).is_some());
}

#[kani::proof]
pub fn c19_t_set1_pairing_after_any_sequence() {
    let p0: u8 = kani::any();
    let p: u8 = kani::any();
    kani::assume(p0 < 3 && p < 3);
    let c0: u8 = kani::any();
    let c: u8 = kani::any();
    kani::assume(c < 0x80);
    kani::assume(!(p0 == 0 && (c0 == 0xE0 || c0 == 0xE1)));
    kani::assume(!(p == 0 && (c == 0x60 || c == 0x61)));
    let mut a = ctx1(p0);
    let mut b = ctx1(p0);
    let ra = a.advance_state(c0);
    let _ = b.advance_state(c0);
    let feed = |s: &mut ScancodeSet1, brk: bool| -> ScanResult {
        if p == 1 {
            let _ = s.advance_state(0xE0);
        } else if p == 2 {
            let _ = s.advance_state(0xE1);
        }
        s.advance_state(c | if brk { 0x80 } else { 0 })
    };
    let d = feed(&mut a, false);
    let u = feed(&mut b, true);
    crate::show!("C19 set1 after ({},{:#04x})->{:?}: prefix={} code={:#04x} make={:?} break={:?}", p0, c0, ra, p, c, d, u);
    assert!(press_of(&d) == release_of(&u), "C19: after another sequence, press and release of a sequence name different keys (or only one of them decodes)");
    kani::cover!(ra.is_err() && press_of(&d).is_some());
}

/// Deep (also run when a closure assertion fails): one-to-one-ness of the sequences that follow an
/// arbitrary complete sequence on the same decoder.  The per-context injectivity harnesses start
/// from canonical states and rely on the closure assertions for histories; a decoder that carries
/// private state across sequences (seed C19-r4m1: a one-entry lookup cache keyed without the prefix
/// class) keeps every make/break pair consistent and still lets two distinct sequences denote one key.
#[kani::proof]
pub fn c19_t_set2_injective_after_any_sequence() {
    let p0: u8 = kani::any();
    let p1: u8 = kani::any();
    let p2: u8 = kani::any();
    kani::assume(p0 < 6 && p1 < 3 && p2 < 3);
    let c0: u8 = kani::any();
    let c1: u8 = kani::any();
    let c2: u8 = kani::any();
    let pfx = |c: u8| c == 0xE0 || c == 0xE1 || c == 0xF0;
    kani::assume(!pfx(c0) && !pfx(c1) && !pfx(c2));
    kani::assume(p1 != p2 || c1 != c2);
    let mut a = ctx2(p0);
    let mut b = ctx2(p0);
    let ra = a.advance_state(c0);
    let _ = b.advance_state(c0);
    let feed = |s: &mut ScancodeSet2, p: u8, c: u8| -> ScanResult {
        if p == 1 {
            let _ = s.advance_state(0xE0);
        } else if p == 2 {
            let _ = s.advance_state(0xE1);
        }
        s.advance_state(c)
    };
    let d1 = feed(&mut a, p1, c1);
    let d2 = feed(&mut b, p2, c2);
    crate::show!("C19 set2 after ({},{:#04x})->{:?}: ({},{:#04x}) -> {:?}; ({},{:#04x}) -> {:?}", p0, c0, ra, p1, c1, d1, p2, c2, d2);
    if let (Some(k1), Some(k2)) = (press_of(&d1), press_of(&d2)) {
        assert!(k1 != k2, "C19: after another sequence, two distinct Set 2 sequences denote the same key");
    }
    kani::cover!(ra.is_ok() && press_of(&d1).is_some() && press_of(&d2).is_some());
}

#[kani::proof]
pub fn c19_t_set1_injective_after_any_sequence() {
    let p0: u8 = kani::any();
    let p1: u8 = kani::any();
    let p2: u8 = kani::any();
    kani::assume(p0 < 3 && p1 < 3 && p2 < 3);
    let c0: u8 = kani::any();
    let c1: u8 = kani::any();
    let c2: u8 = kani::any();
    kani::assume(c1 < 0x80 && c2 < 0x80);
    kani::assume(!(p0 == 0 && (c0 == 0xE0 || c0 == 0xE1)));
    kani::assume(p1 != p2 || c1 != c2);
    let mut a = ctx1(p0);
    let mut b = ctx1(p0);
    let ra = a.advance_state(c0);
    let _ = b.advance_state(c0);
    let feed = |s: &mut ScancodeSet1, p: u8, c: u8| -> ScanResult {
        if p == 1 {
            let _ = s.advance_state(0xE0);
        } else if p == 2 {
            let _ = s.advance_state(0xE1);
        }
        s.advance_state(c)
    };
    let d1 = feed(&mut a, p1, c1);
    let d2 = feed(&mut b, p2, c2);
    crate::show!("C19 set1 after ({},{:#04x})->{:?}: ({},{:#04x}) -> {:?}; ({},{:#04x}) -> {:?}", p0, c0, ra, p1, c1, d1, p2, c2, d2);
    if let (Some(k1), Some(k2)) = (press_of(&d1), press_of(&d2)) {
        assert!(k1 != k2, "C19: after another sequence, two distinct Set 1 sequences denote the same key");
    }
    kani::cover!(ra.is_ok() && press_of(&d1).is_some() && press_of(&d2).is_some());
}
