//! Kani harness crate for pc-keyboard (path dependency on /repo, feature `verif-hooks`).
//!
//! * `refmodel`, `spy`, `gen_*`: reference models, oracles and helper types; compiled both for Kani
//!   and natively (the `native` binary runs them against the real code for samples, known-finding
//!   re-tests and model validation).
//! * `sym` and the `cNN_*` modules: the proof harnesses (only under `cfg(kani)`); harness names are
//!   prefixed `cNN_q_` (quick tier) or `cNN_t_` (thorough tier only).
#![allow(dead_code, unused_imports, unused_variables, unused_mut, clippy::all)]

pub mod gen_keys;
pub mod gen_known;
pub mod gen_oracle;
pub mod refmodel;
pub mod spy;

#[cfg(kani)]
pub mod sym;

#[cfg(kani)]
pub mod c01_c02_scancodes;
#[cfg(kani)]
pub mod c03_layout_chars;
#[cfg(kani)]
pub mod c04_modifiers;
#[cfg(kani)]
pub mod c05_c06_frames;
#[cfg(kani)]
pub mod c07_resync;
#[cfg(kani)]
pub mod c08_nopanic;
#[cfg(kani)]
pub mod c09_ctrl;
#[cfg(kani)]
pub mod c10_capslock;
#[cfg(kani)]
pub mod c11_modgroups;
#[cfg(kani)]
pub mod c12_ascii;
#[cfg(kani)]
pub mod c13_xlat;
#[cfg(kani)]
pub mod c14_dispatch;
#[cfg(kani)]
pub mod c15_numpad;
#[cfg(kani)]
pub mod c16_rawkeys;
#[cfg(kani)]
pub mod c17_anylayout;
#[cfg(kani)]
pub mod c18_keyboard;
#[cfg(kani)]
pub mod c19_pairing;

#[cfg(kani)]
pub mod live_decoder;

#[cfg(kani)]
pub mod playback;

/// Prints the decoded inputs of a harness - only in the native replay of a counterexample
/// (`cargo kani playback` builds with cfg(test)); compiled to nothing for the solver.
#[macro_export]
macro_rules! show {
    ($($t:tt)*) => {
        #[cfg(test)]
        {
            std::println!($($t)*);
        }
    };
}

/// Expands `$m!(short_name, LayoutType)` for each of the ten shipped layouts.
#[macro_export]
macro_rules! for_layouts {
    ($m:ident) => {
        $m!(us104, Us104Key);
        $m!(uk105, Uk105Key);
        $m!(de105, De105Key);
        $m!(azerty, Azerty);
        $m!(no105, No105Key);
        $m!(fise105, FiSe105Key);
        $m!(jis109, Jis109Key);
        $m!(colemak, Colemak);
        $m!(dvorak104, Dvorak104Key);
        $m!(dvp104, DVP104Key);
    };
}
