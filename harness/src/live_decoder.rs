//! Shared by the layout-level properties (C03, C09, C10, C11, C15, C16): what a *live* EventDecoder
//! holding a real layout answers - after the modifier keys were really pressed and after a symbolic
//! two-event history - is exactly what the layout's map_keycode answers for the key under the
//! modifier record the history produces.  This closes the gap between "map_keycode is right for
//! every modifier record" (the per-property harnesses) and "the user types the right thing": a
//! decoder that hands the layout a doctored or stale modifier record, caches a previous answer, or
//! consults a different layout object is caught here.
//!
//! The function name contains each property's quick-tier filter on purpose, so every one of those
//! checks runs it.
use crate::refmodel::*;
use crate::sym::*;
use pc_keyboard::layouts::*;
use pc_keyboard::*;

pub fn live_check<L: KeyboardLayout, R: KeyboardLayout>(name: &str, live: L, reference: &R) {
    let m0 = any_mods();
    let h = any_mode();
    let mut d = evdec(live, &m0, h);
    let (k1, s1) = (any_key(), any_state());
    let (k2, s2) = (any_key(), any_state());
    let _ = d.process_keyevent(KeyEvent::new(k1, s1));
    let _ = d.process_keyevent(KeyEvent::new(k2, s2));
    let m = spec_next(&spec_next(&m0, k1, s1), k2, s2);
    let k = any_key();
    kani::assume(!is_modifier_key(k));
    let got = d.process_keyevent(KeyEvent::new(k, KeyState::Down));
    let want = reference.map_keycode(k, &m, h);
    crate::show!("live decoder {} mods0={:?} ev1=({:?},{:?}) ev2=({:?},{:?}) mode={:?} key={:?} got={:?} layout says {:?} for mods {:?}", name, m0, k1, s1, k2, s2, h, k, got, want, m);
    assert!(got == Some(want), "C03/C09/C10/C11/C15/C16 (live decoder): a key press is not decoded as the layout's map_keycode says for the modifier state the event history produces");
    kani::cover!(k == k1 && s1 == KeyState::Down && k2 == KeyCode::NumpadLock && s2 == KeyState::Down);
}

macro_rules! live_layout {
    ($short:ident, $ty:ident) => {
        pub mod $short {
            use super::*;
            #[kani::proof]
            pub fn live_c03_q_c09_q_c10_q_c11_q_c15_q_c16_q_decoder_after_history() {
                live_check(stringify!($ty), $ty, &$ty);
            }
            /// thorough: the by-reference wrapper inside a live decoder
            #[kani::proof]
            pub fn live_c03_t_c09_t_c10_t_c11_t_c15_t_c16_t_c17_q_anyref_decoder_after_history() {
                let a = AnyLayout::$ty($ty);
                live_check(concat!("&AnyLayout::", stringify!($ty)), &a, &$ty);
            }
        }
    };
}
crate::for_layouts!(live_layout);
