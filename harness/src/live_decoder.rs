//! Shared by the layout-level properties (C03, C09, C10, C11, C15, C16): what a *live* EventDecoder
//! holding a real layout answers - after the modifier keys were really pressed and after a symbolic
//! two-event history - is exactly what the layout's map_keycode answers for the key under the
//! modifier record the decoder reports (Keyboard::get_modifiers) at that moment.  This closes the gap between "map_keycode is right for
//! every modifier record" (the per-property harnesses) and "the user types the right thing": a
//! decoder that hands the layout a doctored or stale modifier record, caches a previous answer, or
//! consults a different layout object is caught here.
//!
//! The function name contains each property's quick-tier filter on purpose, so every one of those
//! checks runs it.
use crate::refmodel::*;
use crate::sym::*;
use pc_keyboard::layouts::*;
use pc_keyboard::*;

pub fn live_check<L: KeyboardLayout, R: KeyboardLayout>(name: &str, live: L, reference: &R) {
    let m0 = any_mods();
    let h = any_mode();
    let mut kb = kbd_with_mods(ScancodeSet2::new(), live, &m0, h);
    let (k1, s1) = (any_key(), any_state());
    let (k2, s2) = (any_key(), any_state());
    let _ = kb.process_keyevent(KeyEvent::new(k1, s1));
    let _ = kb.process_keyevent(KeyEvent::new(k2, s2));
    // The modifier record the decoder itself reports (whether it is the one the history *should* have
    // produced is C04's business, not that of the layout properties).
    let m = kb.get_modifiers().clone();
    let k = any_key();
    kani::assume(!is_modifier_key(k));
    let got = kb.process_keyevent(KeyEvent::new(k, KeyState::Down));
    let want = reference.map_keycode(k, &m, h);
    crate::show!("live decoder {} pressed={:?} ev1=({:?},{:?}) ev2=({:?},{:?}) mode={:?} key={:?} got={:?} layout says {:?} for the reported modifiers {:?}", name, m0, k1, s1, k2, s2, h, k, got, want, m);
    assert!(got == Some(want), "C03/C09/C10/C11/C15/C16 (live decoder): a key press is not decoded as the layout's map_keycode says for the modifier state the decoder reports");
    kani::cover!(k == k1 && s1 == KeyState::Down && k2 == KeyCode::NumpadLock && s2 == KeyState::Down);
    kani::cover!(m.capslock && m.ralt && !m.numlock);
}


/// map_keycode is a *function* of (key, modifiers, mode): the same question gets the same answer
/// whatever other questions were asked in between (no memo, no static, no interior state in a
/// layout).  Every per-layout harness asks one question of a fresh layout; this one asks four.
pub fn function_check<L: KeyboardLayout>(name: &str, l: &L) {
    let (k1, m1, h1) = (any_key(), any_mods(), any_mode());
    let (k, m, h) = (any_key(), any_mods(), any_mode());
    let (k2, m2, h2) = (any_key(), any_mods(), any_mode());
    let _ = l.map_keycode(k1, &m1, h1);
    let r1 = l.map_keycode(k, &m, h);
    let _ = l.map_keycode(k2, &m2, h2);
    let r2 = l.map_keycode(k, &m, h);
    crate::show!("layout function {} first=({:?},{:?},{:?}) asked=({:?},{:?},{:?}) -> {:?}; then ({:?},{:?},{:?}); asked again -> {:?}", name, k1, m1, h1, k, m, h, r1, k2, m2, h2, r2);
    assert!(r1 == r2, "C03/C09/C10/C11/C12/C15/C16/C17 (layout is a function): map_keycode answered the same question differently depending on earlier calls");
    kani::cover!(k1 == k && m1.numlock != m.numlock);
}

macro_rules! live_layout {
    ($short:ident, $ty:ident) => {
        pub mod $short {
            use super::*;
            #[kani::proof]
            pub fn live_c03_q_c09_q_c10_q_c11_q_c15_q_c16_q_decoder_after_history() {
                live_check(stringify!($ty), $ty, &$ty);
            }
            #[kani::proof]
            pub fn pure_c03_q_c09_q_c10_q_c11_q_c12_q_c15_q_c16_q_c17_q_layout_is_a_function() {
                function_check(stringify!($ty), &$ty);
            }
            /// thorough: the by-reference wrapper inside a live decoder
            #[kani::proof]
            pub fn live_c03_t_c09_t_c10_t_c11_t_c15_t_c16_t_anyref_decoder_after_history() {
                let a = AnyLayout::$ty($ty);
                live_check(concat!("&AnyLayout::", stringify!($ty)), &a, &$ty);
            }
        }
    };
}
crate::for_layouts!(live_layout);
