// Placeholder: the driver writes concrete-playback unit tests here when a harness fails.
