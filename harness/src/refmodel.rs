//! Reference models, written from the property statements and the committed oracles - never from
//! the implementation.  Compiled both under Kani (the solver sees them as code) and natively (the
//! `native` binary validates them against the repository's own test vectors).
use crate::gen_known::*;
use crate::gen_oracle::*;
use pc_keyboard::{DecodedKey, Error, HandleControl, KeyCode, KeyEvent, KeyState, Modifiers};

pub type ScanResult = Result<Option<KeyEvent>, Error>;

// ------------------------------------------------------------------------------------------------
// C05 / C06: PS/2 frames
// ------------------------------------------------------------------------------------------------

/// Frame check written as a fold over the bits (deliberately not `count_ones`).
pub fn ref_frame(w: u16) -> Result<u8, Error> {
    if w & 1 != 0 {
        return Err(Error::BadStartBit);
    }
    if (w >> 10) & 1 == 0 {
        return Err(Error::BadStopBit);
    }
    let mut x = 0u16;
    let mut i = 1;
    while i <= 9 {
        x ^= (w >> i) & 1;
        i += 1;
    }
    if x != 1 {
        return Err(Error::ParityError);
    }
    Ok(((w >> 1) & 0xff) as u8)
}

/// The valid 11-bit frame carrying `b`: start 0, data LSB first, odd parity, stop 1.
pub fn encode_frame(b: u8) -> u16 {
    let mut ones = 0u16;
    let mut i = 0;
    while i < 8 {
        ones += ((b >> i) & 1) as u16;
        i += 1;
    }
    let parity = if ones % 2 == 0 { 1u16 } else { 0u16 };
    ((b as u16) << 1) | (parity << 9) | (1 << 10)
}

// ------------------------------------------------------------------------------------------------
// C04 / C11: modifier groupings and the modifier step function
// ------------------------------------------------------------------------------------------------

pub fn r_shift(m: &Modifiers) -> bool {
    m.lshift || m.rshift
}
pub fn r_ctrl(m: &Modifiers) -> bool {
    m.lctrl || m.rctrl
}
pub fn r_alt(m: &Modifiers) -> bool {
    m.lalt || m.ralt
}
pub fn r_altgr(m: &Modifiers) -> bool {
    m.ralt || (m.lalt && r_ctrl(m))
}
pub fn r_caps(m: &Modifiers) -> bool {
    r_shift(m) != m.capslock
}

/// Initial modifier record: NumLock on, everything else off.
pub fn spec_initial() -> Modifiers {
    Modifiers {
        lshift: false,
        rshift: false,
        lctrl: false,
        rctrl: false,
        numlock: true,
        capslock: false,
        lalt: false,
        ralt: false,
        rctrl2: false,
    }
}

/// One step of the modifier record, written from the statement of C04.
pub fn spec_next(m: &Modifiers, k: KeyCode, s: KeyState) -> Modifiers {
    let mut n = m.clone();
    let held = match s {
        KeyState::Down => Some(true),
        KeyState::Up => Some(false),
        KeyState::SingleShot => None,
    };
    if let Some(h) = held {
        match k {
            KeyCode::LShift => n.lshift = h,
            KeyCode::RShift => n.rshift = h,
            KeyCode::LControl => n.lctrl = h,
            KeyCode::RControl => n.rctrl = h,
            KeyCode::LAlt => n.lalt = h,
            KeyCode::RAltGr => n.ralt = h,
            KeyCode::RControl2 => n.rctrl2 = h,
            KeyCode::CapsLock => {
                if h {
                    n.capslock = !m.capslock
                }
            }
            KeyCode::NumpadLock => {
                if h && !m.rctrl2 {
                    n.numlock = !m.numlock
                }
            }
            _ => {}
        }
    }
    n
}

/// The nine keys whose press is answered by the event decoder itself.
pub fn is_modifier_key(k: KeyCode) -> bool {
    matches!(
        k,
        KeyCode::LShift
            | KeyCode::RShift
            | KeyCode::LControl
            | KeyCode::RControl
            | KeyCode::LAlt
            | KeyCode::RAltGr
            | KeyCode::RControl2
            | KeyCode::CapsLock
            | KeyCode::NumpadLock
    )
}

// ------------------------------------------------------------------------------------------------
// C01 / C02 / C07 / C13 / C19: scancode automata generated from the oracle tables
// ------------------------------------------------------------------------------------------------

/// What the reference accepts for one byte: `a`, or `b` where references disagree, or anything.
#[derive(Debug, Clone)]
pub struct Expect {
    pub a: ScanResult,
    pub b: Option<ScanResult>,
    pub any: bool,
}

impl Expect {
    pub fn exact(a: ScanResult) -> Expect {
        Expect { a, b: None, any: false }
    }
    pub fn accepts(&self, r: &ScanResult) -> bool {
        if self.any || *r == self.a {
            return true;
        }
        match &self.b {
            Some(x) => x == r,
            None => false,
        }
    }
}

fn table_event(k: Option<KeyCode>, st: KeyState) -> ScanResult {
    match k {
        Some(k) => Ok(Some(KeyEvent::new(k, st))),
        None => Err(Error::UnknownKeyCode),
    }
}

pub const SET2_CONTEXTS: u8 = 6;
/// Set 2 prefix contexts: 0 none, 1 `E0`, 2 `F0`, 3 `E0 F0`, 4 `E1`, 5 `E1 F0`.
pub const SET2_CTX_PREFIX: [&[u8]; 6] = [&[], &[0xE0], &[0xF0], &[0xE0, 0xF0], &[0xE1], &[0xE1, 0xF0]];
/// Number of bytes already consumed by the pending prefix in each context.
pub const SET2_CTX_DEPTH: [u8; 6] = [0, 1, 1, 2, 1, 2];

/// Reference Set 2 automaton: (expected result, next context) for one byte in a context.
pub fn ref_set2_step(ctx: u8, b: u8) -> (Expect, u8) {
    let none = || Expect::exact(Ok(None));
    match ctx {
        0 => match b {
            0xE0 => (none(), 1),
            0xE1 => (none(), 4),
            0xF0 => (none(), 2),
            0x00 => (Expect::exact(Ok(Some(KeyEvent::new(KeyCode::TooManyKeys, KeyState::SingleShot)))), 0),
            0xAA => (Expect::exact(Ok(Some(KeyEvent::new(KeyCode::PowerOnTestOk, KeyState::SingleShot)))), 0),
            0x84 => (
                Expect {
                    a: Err(Error::UnknownKeyCode),
                    b: Some(Ok(Some(KeyEvent::new(KeyCode::SysRq, KeyState::Down)))),
                    any: false,
                },
                0,
            ),
            _ => (Expect::exact(table_event(ref_set2_plain(b), KeyState::Down)), 0),
        },
        2 => match b {
            // break form of a status byte: unconstrained
            0x00 | 0xAA => (Expect { a: Err(Error::UnknownKeyCode), b: None, any: true }, 0),
            0x84 => (
                Expect {
                    a: Err(Error::UnknownKeyCode),
                    b: Some(Ok(Some(KeyEvent::new(KeyCode::SysRq, KeyState::Up)))),
                    any: false,
                },
                0,
            ),
            _ => (Expect::exact(table_event(ref_set2_plain(b), KeyState::Up)), 0),
        },
        1 => match b {
            0xF0 => (none(), 3),
            _ => (Expect::exact(table_event(ref_set2_e0(b), KeyState::Down)), 0),
        },
        3 => (Expect::exact(table_event(ref_set2_e0(b), KeyState::Up)), 0),
        4 => match b {
            0xF0 => (none(), 5),
            _ => (Expect::exact(table_event(ref_set2_e1(b), KeyState::Down)), 0),
        },
        _ => (Expect::exact(table_event(ref_set2_e1(b), KeyState::Up)), 0),
    }
}

pub const SET1_CONTEXTS: u8 = 3;
/// Set 1 prefix contexts: 0 none, 1 `E0`, 2 `E1`.
pub const SET1_CTX_PREFIX: [&[u8]; 3] = [&[], &[0xE0], &[0xE1]];
pub const SET1_CTX_DEPTH: [u8; 3] = [0, 1, 1];

/// Reference Set 1 automaton.
pub fn ref_set1_step(ctx: u8, b: u8) -> (Expect, u8) {
    let st = if b & 0x80 != 0 { KeyState::Up } else { KeyState::Down };
    let code = b & 0x7F;
    match ctx {
        0 => match b {
            0xE0 => (Expect::exact(Ok(None)), 1),
            0xE1 => (Expect::exact(Ok(None)), 2),
            _ => (Expect::exact(table_event(ref_set1_plain(code), st)), 0),
        },
        1 => (Expect::exact(table_event(ref_set1_e0(code), st)), 0),
        _ => (Expect::exact(table_event(ref_set1_e1(code), st)), 0),
    }
}

// ------------------------------------------------------------------------------------------------
// C03 / C09 / C10 / C15 / C16: layout-level reference predicates
// ------------------------------------------------------------------------------------------------

/// Uppercase partner of a lowercase letter: a-z and the Latin-1 letters U+00E0..U+00FE except the
/// division sign.  (sharp s, micro sign and y-diaeresis have no single-code Latin-1 capital and are
/// therefore not "letter keys" in the sense of C10.)
pub fn upper_of(c: char) -> Option<char> {
    let u = c as u32;
    if (0x61..=0x7A).contains(&u) || ((0xE0..=0xFE).contains(&u) && u != 0xF7) {
        char::from_u32(u - 0x20)
    } else {
        None
    }
}

pub fn is_ascii_lower(c: char) -> bool {
    (c as u32) >= 0x61 && (c as u32) <= 0x7A
}

/// The numpad keys (C11: the only keys allowed to look at NumLock).
pub fn is_numpad_key(k: KeyCode) -> bool {
    matches!(
        k,
        KeyCode::Numpad0
            | KeyCode::Numpad1
            | KeyCode::Numpad2
            | KeyCode::Numpad3
            | KeyCode::Numpad4
            | KeyCode::Numpad5
            | KeyCode::Numpad6
            | KeyCode::Numpad7
            | KeyCode::Numpad8
            | KeyCode::Numpad9
            | KeyCode::NumpadPeriod
            | KeyCode::NumpadEnter
            | KeyCode::NumpadAdd
            | KeyCode::NumpadSubtract
            | KeyCode::NumpadMultiply
            | KeyCode::NumpadDivide
            | KeyCode::NumpadLock
    )
}

/// Numpad digit keys: (digit, navigation alias with NumLock off).  Numpad5 has no alias.
pub fn numpad_digit(k: KeyCode) -> Option<(char, Option<KeyCode>)> {
    match k {
        KeyCode::Numpad0 => Some(('0', Some(KeyCode::Insert))),
        KeyCode::Numpad1 => Some(('1', Some(KeyCode::End))),
        KeyCode::Numpad2 => Some(('2', Some(KeyCode::ArrowDown))),
        KeyCode::Numpad3 => Some(('3', Some(KeyCode::PageDown))),
        KeyCode::Numpad4 => Some(('4', Some(KeyCode::ArrowLeft))),
        KeyCode::Numpad5 => Some(('5', None)),
        KeyCode::Numpad6 => Some(('6', Some(KeyCode::ArrowRight))),
        KeyCode::Numpad7 => Some(('7', Some(KeyCode::Home))),
        KeyCode::Numpad8 => Some(('8', Some(KeyCode::ArrowUp))),
        KeyCode::Numpad9 => Some(('9', Some(KeyCode::PageUp))),
        _ => None,
    }
}

/// Keys that never type a character (C16 b).
pub fn is_characterless_key(k: KeyCode) -> bool {
    matches!(
        k,
        KeyCode::F1
            | KeyCode::F2
            | KeyCode::F3
            | KeyCode::F4
            | KeyCode::F5
            | KeyCode::F6
            | KeyCode::F7
            | KeyCode::F8
            | KeyCode::F9
            | KeyCode::F10
            | KeyCode::F11
            | KeyCode::F12
            | KeyCode::PrintScreen
            | KeyCode::SysRq
            | KeyCode::ScrollLock
            | KeyCode::PauseBreak
            | KeyCode::Insert
            | KeyCode::Home
            | KeyCode::PageUp
            | KeyCode::End
            | KeyCode::PageDown
            | KeyCode::ArrowUp
            | KeyCode::ArrowDown
            | KeyCode::ArrowLeft
            | KeyCode::ArrowRight
            | KeyCode::LShift
            | KeyCode::RShift
            | KeyCode::LControl
            | KeyCode::RControl
            | KeyCode::LAlt
            | KeyCode::RAltGr
            | KeyCode::LWin
            | KeyCode::RWin
            | KeyCode::Apps
            | KeyCode::CapsLock
            | KeyCode::NumpadLock
            | KeyCode::PrevTrack
            | KeyCode::NextTrack
            | KeyCode::Mute
            | KeyCode::Calculator
            | KeyCode::Play
            | KeyCode::Stop
            | KeyCode::VolumeDown
            | KeyCode::VolumeUp
            | KeyCode::WWWHome
            | KeyCode::PowerOnTestOk
            | KeyCode::TooManyKeys
            | KeyCode::RControl2
            | KeyCode::RAlt2
            | KeyCode::Oem9
            | KeyCode::Oem10
            | KeyCode::Oem11
    )
}

/// Level selected by a modifier set for the character oracle: 0 base, 1 shift, 2 altgr,
/// None for shift+altgr (no expectation).
pub fn level_of(m: &Modifiers) -> Option<u8> {
    match (r_shift(m), r_altgr(m)) {
        (false, false) => Some(0),
        (true, false) => Some(1),
        (false, true) => Some(2),
        (true, true) => None,
    }
}

/// Modifier record that selects a level with nothing else held and NumLock in its initial state.
pub fn level_mods(level: u8) -> Modifiers {
    let mut m = spec_initial();
    match level {
        1 => m.lshift = true,
        2 => m.ralt = true,
        _ => {}
    }
    m
}
