//! A recording layout: counts calls and returns an injective encoding of everything it was given.
use crate::gen_keys::key_index;
use core::cell::Cell;
use pc_keyboard::{DecodedKey, HandleControl, KeyCode, KeyboardLayout, Modifiers};

#[derive(Clone, PartialEq, Eq, Debug)]
pub struct Spy<'a> {
    pub tag: bool,
    pub calls: &'a Cell<u32>,
}

pub fn mod_bits(m: &Modifiers) -> u32 {
    (m.lshift as u32)
        | (m.rshift as u32) << 1
        | (m.lctrl as u32) << 2
        | (m.rctrl as u32) << 3
        | (m.numlock as u32) << 4
        | (m.capslock as u32) << 5
        | (m.lalt as u32) << 6
        | (m.ralt as u32) << 7
        | (m.rctrl2 as u32) << 8
}

pub fn mods_from_bits(b: u32) -> Modifiers {
    Modifiers {
        lshift: b & 1 != 0,
        rshift: b & 2 != 0,
        lctrl: b & 4 != 0,
        rctrl: b & 8 != 0,
        numlock: b & 16 != 0,
        capslock: b & 32 != 0,
        lalt: b & 64 != 0,
        ralt: b & 128 != 0,
        rctrl2: b & 256 != 0,
    }
}

/// Injective: (tag, key, nine flags, mode) -> a private-use-free scalar value in 0x40000..0xC0000.
pub fn enc_u32(tag: bool, k: KeyCode, m: &Modifiers, h: HandleControl) -> u32 {
    let hb = match h {
        HandleControl::MapLettersToUnicode => 1u32,
        HandleControl::Ignore => 0u32,
    };
    0x40000 + (((tag as u32) << 18) | ((key_index(k) as u32) << 10) | (mod_bits(m) << 1) | hb)
}

pub fn enc(tag: bool, k: KeyCode, m: &Modifiers, h: HandleControl) -> DecodedKey {
    match char::from_u32(enc_u32(tag, k, m, h)) {
        Some(c) => DecodedKey::Unicode(c),
        None => DecodedKey::RawKey(k), // unreachable: range is below the surrogates' plane limit
    }
}

impl<'a> KeyboardLayout for Spy<'a> {
    fn map_keycode(&self, keycode: KeyCode, modifiers: &Modifiers, handle_ctrl: HandleControl) -> DecodedKey {
        self.calls.set(self.calls.get().wrapping_add(1));
        enc(self.tag, keycode, modifiers, handle_ctrl)
    }
}
