//! Symbolic-input constructors and state builders (public API of pc-keyboard only).
use crate::gen_keys::*;
use crate::refmodel::*;
use crate::spy::Spy;
use pc_keyboard::*;

/// Any key of the *current* `KeyCode` enum (ALL_KEYS is regenerated from /repo on every run).
pub fn any_key() -> KeyCode {
    let i: usize = kani::any();
    kani::assume(i < N_KEYS);
    ALL_KEYS[i]
}

pub fn any_state() -> KeyState {
    let s: u8 = kani::any();
    kani::assume(s < 3);
    match s {
        0 => KeyState::Up,
        1 => KeyState::Down,
        _ => KeyState::SingleShot,
    }
}

pub fn any_mode() -> HandleControl {
    if kani::any() {
        HandleControl::MapLettersToUnicode
    } else {
        HandleControl::Ignore
    }
}

/// All 512 modifier records.
pub fn any_mods() -> Modifiers {
    Modifiers {
        lshift: kani::any(),
        rshift: kani::any(),
        lctrl: kani::any(),
        rctrl: kani::any(),
        numlock: kani::any(),
        capslock: kani::any(),
        lalt: kani::any(),
        ralt: kani::any(),
        rctrl2: kani::any(),
    }
}

/// Set 2 decoder in prefix context `i` (< 6), reached through the public API from `new()`.
pub fn ctx2(i: u8) -> ScancodeSet2 {
    let mut s = ScancodeSet2::new();
    match i {
        0 => {}
        1 => {
            let _ = s.advance_state(0xE0);
        }
        2 => {
            let _ = s.advance_state(0xF0);
        }
        3 => {
            let _ = s.advance_state(0xE0);
            let _ = s.advance_state(0xF0);
        }
        4 => {
            let _ = s.advance_state(0xE1);
        }
        _ => {
            let _ = s.advance_state(0xE1);
            let _ = s.advance_state(0xF0);
        }
    }
    s
}

/// Set 1 decoder in prefix context `i` (< 3).
pub fn ctx1(i: u8) -> ScancodeSet1 {
    let mut s = ScancodeSet1::new();
    match i {
        0 => {}
        1 => {
            let _ = s.advance_state(0xE0);
        }
        _ => {
            let _ = s.advance_state(0xE1);
        }
    }
    s
}

/// Frame decoder after `k` (<= 10) symbolic bits from `new()`: every partial-frame state.
pub fn partial(k: u8) -> Ps2Decoder {
    let mut d = Ps2Decoder::new();
    let mut i = 0u8;
    while i < 10 {
        if i < k {
            let b: bool = kani::any();
            let _ = d.add_bit(b);
        }
        i += 1;
    }
    d
}

fn press<L: KeyboardLayout>(d: &mut EventDecoder<L>, cond: bool, k: KeyCode) {
    if cond {
        let _ = d.process_keyevent(KeyEvent::new(k, KeyState::Down));
    }
}

/// Event decoder whose modifier record is `m`, reached from `new()` by at most nine presses.
/// (That the result really reports `m` is an obligation of C04, not an assumption.)
pub fn evdec<L: KeyboardLayout>(layout: L, m: &Modifiers, h: HandleControl) -> EventDecoder<L> {
    let mut d = EventDecoder::new(layout, h);
    press(&mut d, !m.numlock, KeyCode::NumpadLock);
    press(&mut d, m.capslock, KeyCode::CapsLock);
    press(&mut d, m.lshift, KeyCode::LShift);
    press(&mut d, m.rshift, KeyCode::RShift);
    press(&mut d, m.lctrl, KeyCode::LControl);
    press(&mut d, m.rctrl, KeyCode::RControl);
    press(&mut d, m.lalt, KeyCode::LAlt);
    press(&mut d, m.ralt, KeyCode::RAltGr);
    press(&mut d, m.rctrl2, KeyCode::RControl2);
    d
}

fn kpress<L: KeyboardLayout, S: ScancodeSet>(d: &mut Keyboard<L, S>, cond: bool, k: KeyCode) {
    if cond {
        let _ = d.process_keyevent(KeyEvent::new(k, KeyState::Down));
    }
}

/// Same as `evdec`, on a whole `Keyboard`.
pub fn kbd_with_mods<L: KeyboardLayout, S: ScancodeSet>(set: S, layout: L, m: &Modifiers, h: HandleControl) -> Keyboard<L, S> {
    let mut d = Keyboard::new(set, layout, h);
    kpress(&mut d, !m.numlock, KeyCode::NumpadLock);
    kpress(&mut d, m.capslock, KeyCode::CapsLock);
    kpress(&mut d, m.lshift, KeyCode::LShift);
    kpress(&mut d, m.rshift, KeyCode::RShift);
    kpress(&mut d, m.lctrl, KeyCode::LControl);
    kpress(&mut d, m.rctrl, KeyCode::RControl);
    kpress(&mut d, m.lalt, KeyCode::LAlt);
    kpress(&mut d, m.ralt, KeyCode::RAltGr);
    kpress(&mut d, m.rctrl2, KeyCode::RControl2);
    d
}
