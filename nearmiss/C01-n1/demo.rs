// Demonstrates near-miss n1: `Keyboard::add_byte` must not disturb a partially
// received bit frame held by the PS/2 bit decoder.
use pc_keyboard::{layouts, HandleControl, KeyCode, KeyEvent, KeyState, Keyboard, ScancodeSet2};

#[test]
fn add_byte_leaves_partial_bit_frame_alone() {
    let mut k = Keyboard::new(
        ScancodeSet2::new(),
        layouts::Us104Key,
        HandleControl::MapLettersToUnicode,
    );
    // Frame for 0x01 (F9): start=0, data LSB first 1,0,0,0,0,0,0,0, parity=0, stop=1
    let bits = [
        false, true, false, false, false, false, false, false, false, false, true,
    ];
    // first five bits of the frame
    for &b in &bits[..5] {
        assert_eq!(k.add_bit(b), Ok(None));
    }
    // a whole byte arrives by another route (Set 2 make code for 'A')
    assert_eq!(
        k.add_byte(0x1C),
        Ok(Some(KeyEvent::new(KeyCode::A, KeyState::Down)))
    );
    // remaining six bits complete the frame that was in progress
    for &b in &bits[5..10] {
        assert_eq!(k.add_bit(b), Ok(None));
    }
    assert_eq!(
        k.add_bit(bits[10]),
        Ok(Some(KeyEvent::new(KeyCode::F9, KeyState::Down)))
    );
}
