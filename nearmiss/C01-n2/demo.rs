// Demonstrates near-miss n2: the one-shot status events produced by the Set 2
// decoder for bytes 0x00 / 0xAA must not turn into a DecodedKey; only key
// presses (KeyState::Down) do.
use pc_keyboard::{layouts, HandleControl, KeyCode, KeyEvent, KeyState, Keyboard, ScancodeSet2};

#[test]
fn status_one_shots_decode_to_nothing() {
    let mut k = Keyboard::new(
        ScancodeSet2::new(),
        layouts::Us104Key,
        HandleControl::MapLettersToUnicode,
    );
    for (byte, code) in [
        (0xAAu8, KeyCode::PowerOnTestOk),
        (0x00u8, KeyCode::TooManyKeys),
    ] {
        let ev = k.add_byte(byte).unwrap().unwrap();
        assert_eq!(ev, KeyEvent::new(code, KeyState::SingleShot));
        assert_eq!(k.process_keyevent(ev), None);
    }
}
