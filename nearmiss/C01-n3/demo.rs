// Demonstrates near-miss n3: Scancode Set 1 has no TooManyKeys code in the
// README conversion table ("--"), so an unprefixed 0x00 byte in a *Set 1*
// stream is an unknown key code.
use pc_keyboard::{
    layouts, Error, HandleControl, KeyCode, KeyEvent, KeyState, Keyboard, ScancodeSet,
    ScancodeSet1,
};

#[test]
fn set1_zero_byte_is_unknown() {
    let mut s = ScancodeSet1::new();
    assert_eq!(s.advance_state(0x00), Err(Error::UnknownKeyCode));
    // decoder carries on normally afterwards
    assert_eq!(
        s.advance_state(0x1E),
        Ok(Some(KeyEvent::new(KeyCode::A, KeyState::Down)))
    );

    let mut k = Keyboard::new(
        ScancodeSet1::new(),
        layouts::Us104Key,
        HandleControl::MapLettersToUnicode,
    );
    assert_eq!(k.add_byte(0x00), Err(Error::UnknownKeyCode));
}
