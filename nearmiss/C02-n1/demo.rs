//! Demonstrates the behaviour change of near-miss C02/n1 (public API only).
//! Passes on the unpatched crate, fails with the patch applied.

use pc_keyboard::{
    layouts, Error, HandleControl, KeyCode, KeyEvent, KeyState, Keyboard, ScancodeSet,
    ScancodeSet1, ScancodeSet2,
};

/// Scancode Set 2: `E0 7E` is not in the conversion table, so it is an unknown
/// key code - on make and on break.
#[test]
fn set2_e0_7e_is_not_a_key() {
    let mut d = ScancodeSet2::new();
    assert_eq!(d.advance_state(0xE0), Ok(None));
    assert_eq!(d.advance_state(0x7E), Err(Error::UnknownKeyCode));
    assert_eq!(d.advance_state(0xE0), Ok(None));
    assert_eq!(d.advance_state(0xF0), Ok(None));
    assert_eq!(d.advance_state(0x7E), Err(Error::UnknownKeyCode));

    // ... and the decoder is back at the start of a sequence afterwards
    assert_eq!(
        d.advance_state(0x7E),
        Ok(Some(KeyEvent::new(KeyCode::ScrollLock, KeyState::Down)))
    );
}

/// No Set 2 byte sequence can make the scancode stage report `PauseBreak`:
/// the key is only ever inferred by the event decoder (README, Note 1).
#[test]
fn set2_never_reports_pausebreak() {
    for prefix in [None, Some(0xE0u8), Some(0xE1u8)] {
        for release in [false, true] {
            for code in 0..=255u8 {
                let mut k = Keyboard::new(
                    ScancodeSet2::new(),
                    layouts::Us104Key,
                    HandleControl::Ignore,
                );
                if let Some(p) = prefix {
                    let _ = k.add_byte(p);
                }
                if release {
                    let _ = k.add_byte(0xF0);
                }
                if let Ok(Some(ev)) = k.add_byte(code) {
                    assert_ne!(
                        ev.code,
                        KeyCode::PauseBreak,
                        "prefix {:?} release {} code {:#04x}",
                        prefix,
                        release,
                        code
                    );
                }
            }
        }
    }
}

/// Unchanged by the patch (holds with and without it): what the i8042 makes of
/// that Set 2 sequence, Set 1 `E0 46` / `E0 C6`, is an undefined Set 1 code and
/// is reported as UnknownKeyCode, as C02 requires.
#[test]
fn set1_e0_46_stays_unknown() {
    let mut d = ScancodeSet1::new();
    assert_eq!(d.advance_state(0xE0), Ok(None));
    assert_eq!(d.advance_state(0x46), Err(Error::UnknownKeyCode));
    assert_eq!(d.advance_state(0xE0), Ok(None));
    assert_eq!(d.advance_state(0xC6), Err(Error::UnknownKeyCode));
    assert_eq!(
        d.advance_state(0x46),
        Ok(Some(KeyEvent::new(KeyCode::ScrollLock, KeyState::Down)))
    );
}
