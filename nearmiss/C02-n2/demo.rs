//! Demonstrates the behaviour change of near-miss C02/n2 (public API only).
//! Passes on the unpatched crate, fails with the patch applied.

use pc_keyboard::{
    layouts, HandleControl, KeyCode, KeyEvent, KeyState, Keyboard, ScancodeSet1,
};

/// The 11-bit PS/2 frame carrying `byte`: start, 8 data bits LSB first, odd
/// parity, stop.
fn frame(byte: u8) -> [bool; 11] {
    let mut f = [false; 11];
    for i in 0..8 {
        f[1 + i] = (byte >> i) & 1 == 1;
    }
    f[9] = byte.count_ones() % 2 == 0;
    f[10] = true;
    f
}

/// The bit register of a `Keyboard` is independent of `add_byte`: a frame that
/// was begun with `add_bit` before a byte was handed to `add_byte` is completed
/// by the remaining bits afterwards.
#[test]
fn add_byte_leaves_the_partial_bit_frame_alone() {
    let mut k = Keyboard::new(
        ScancodeSet1::new(),
        layouts::Us104Key,
        HandleControl::MapLettersToUnicode,
    );
    let f = frame(0x1E); // Set 1 make code of A
    for bit in &f[..5] {
        assert_eq!(k.add_bit(*bit), Ok(None));
    }

    // a whole byte arrives in between (Set 1: S pressed) - same with and
    // without the patch
    assert_eq!(
        k.add_byte(0x1F),
        Ok(Some(KeyEvent::new(KeyCode::S, KeyState::Down)))
    );

    for bit in &f[5..10] {
        assert_eq!(k.add_bit(*bit), Ok(None));
    }
    assert_eq!(
        k.add_bit(f[10]),
        Ok(Some(KeyEvent::new(KeyCode::A, KeyState::Down))),
        "the sixth remaining bit completes the frame begun before add_byte"
    );
}

/// Same for `add_word`, which is documented next to `add_bit`.
#[test]
fn add_word_leaves_the_partial_bit_frame_alone() {
    let mut k = Keyboard::new(
        ScancodeSet1::new(),
        layouts::Us104Key,
        HandleControl::MapLettersToUnicode,
    );
    let f = frame(0x9E); // Set 1 break code of A
    for bit in &f[..3] {
        assert_eq!(k.add_bit(*bit), Ok(None));
    }
    let mut word = 0u16;
    for (i, bit) in frame(0x1E).iter().enumerate() {
        word |= (*bit as u16) << i;
    }
    assert_eq!(
        k.add_word(word),
        Ok(Some(KeyEvent::new(KeyCode::A, KeyState::Down)))
    );
    for bit in &f[3..10] {
        assert_eq!(k.add_bit(*bit), Ok(None));
    }
    assert_eq!(
        k.add_bit(f[10]),
        Ok(Some(KeyEvent::new(KeyCode::A, KeyState::Up)))
    );
}
