//! Demonstrates the behaviour change of near-miss C02/n3 (public API only).
//! Passes on the unpatched crate, fails with the patch applied.

use pc_keyboard::{
    layouts, DecodedKey, HandleControl, KeyCode, KeyEvent, KeyState, Keyboard, ScancodeSet1,
};

/// Set 1 byte stream `1D 45 C5 9D` (hold left Ctrl, tap NumLock).  The scancode
/// stage reports the four standard events (this is what C02 is about, and it is
/// the same with and without the patch).  One level up, the event decoder treats
/// NumLock as NumLock: `PauseBreak` is only inferred from the hidden `RControl2`
/// key (README, Note 1), and the NumLock toggle flips.
#[test]
fn ctrl_numlock_is_numlock() {
    let mut k = Keyboard::new(
        ScancodeSet1::new(),
        layouts::Us104Key,
        HandleControl::MapLettersToUnicode,
    );
    assert!(k.get_modifiers().numlock);

    let ev = k.add_byte(0x1D).unwrap().unwrap();
    assert_eq!(ev, KeyEvent::new(KeyCode::LControl, KeyState::Down));
    assert_eq!(
        k.process_keyevent(ev),
        Some(DecodedKey::RawKey(KeyCode::LControl))
    );

    let ev = k.add_byte(0x45).unwrap().unwrap();
    assert_eq!(ev, KeyEvent::new(KeyCode::NumpadLock, KeyState::Down));
    assert_eq!(
        k.process_keyevent(ev),
        Some(DecodedKey::RawKey(KeyCode::NumpadLock))
    );
    assert!(!k.get_modifiers().numlock, "NumLock toggled off");

    let ev = k.add_byte(0xC5).unwrap().unwrap();
    assert_eq!(ev, KeyEvent::new(KeyCode::NumpadLock, KeyState::Up));
    assert_eq!(k.process_keyevent(ev), None);

    let ev = k.add_byte(0x9D).unwrap().unwrap();
    assert_eq!(ev, KeyEvent::new(KeyCode::LControl, KeyState::Up));
    assert_eq!(k.process_keyevent(ev), None);
}

/// Same with the right Ctrl key (`E0 1D`), and the real Pause sequence
/// (`E1 1D 45 E1 9D C5`) still is Pause and does not toggle NumLock.
#[test]
fn right_ctrl_numlock_is_numlock_and_pause_is_pause() {
    let mut k = Keyboard::new(
        ScancodeSet1::new(),
        layouts::Uk105Key,
        HandleControl::Ignore,
    );
    let mut decoded = Vec::new();
    for b in [0xE0, 0x1D, 0x45, 0xC5, 0xE0, 0x9D] {
        if let Some(ev) = k.add_byte(b).unwrap() {
            decoded.push(k.process_keyevent(ev));
        }
    }
    assert_eq!(
        decoded,
        vec![
            Some(DecodedKey::RawKey(KeyCode::RControl)),
            Some(DecodedKey::RawKey(KeyCode::NumpadLock)),
            None,
            None
        ]
    );
    assert!(!k.get_modifiers().numlock);

    let mut decoded = Vec::new();
    for b in [0xE1, 0x1D, 0x45, 0xE1, 0x9D, 0xC5] {
        if let Some(ev) = k.add_byte(b).unwrap() {
            decoded.push(k.process_keyevent(ev));
        }
    }
    assert_eq!(
        decoded,
        vec![
            Some(DecodedKey::RawKey(KeyCode::RControl2)),
            Some(DecodedKey::RawKey(KeyCode::PauseBreak)),
            None,
            None
        ]
    );
    assert!(!k.get_modifiers().numlock);
}
