// Demonstrates near-miss n1: on the German layout, holding Shift AND AltGr together.
// HEAD lets AltGr win on Q, E and the +*~ key; the patch lets Shift win (as it already does
// on the 7 8 9 0 ß < keys of the same layout). Passes on HEAD, fails with the patch.
use pc_keyboard::layouts::{AnyLayout, De105Key};
use pc_keyboard::{
    DecodedKey, EventDecoder, HandleControl, KeyCode, KeyEvent, KeyState, KeyboardLayout,
    Modifiers,
};

fn shift_altgr() -> Modifiers {
    Modifiers {
        lshift: true,
        rshift: false,
        lctrl: false,
        rctrl: false,
        numlock: true,
        capslock: false,
        lalt: false,
        ralt: true,
        rctrl2: false,
    }
}

#[test]
fn de_shift_altgr_q_e_plus_direct() {
    let m = shift_altgr();
    assert_eq!(
        De105Key.map_keycode(KeyCode::Q, &m, HandleControl::Ignore),
        DecodedKey::Unicode('@')
    );
    assert_eq!(
        De105Key.map_keycode(KeyCode::E, &m, HandleControl::MapLettersToUnicode),
        DecodedKey::Unicode('€')
    );
    assert_eq!(
        De105Key.map_keycode(KeyCode::Oem6, &m, HandleControl::Ignore),
        DecodedKey::Unicode('~')
    );
}

#[test]
fn de_shift_altgr_q_via_events() {
    let mut dec = EventDecoder::new(AnyLayout::De105Key(De105Key), HandleControl::Ignore);
    dec.process_keyevent(KeyEvent::new(KeyCode::RShift, KeyState::Down));
    dec.process_keyevent(KeyEvent::new(KeyCode::RAltGr, KeyState::Down));
    assert_eq!(
        dec.process_keyevent(KeyEvent::new(KeyCode::Q, KeyState::Down)),
        Some(DecodedKey::Unicode('@'))
    );
}
