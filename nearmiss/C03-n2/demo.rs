// Demonstrates near-miss n2: German umlaut keys (ü ö ä) with CapsLock ON and Shift held.
// HEAD: Shift cancels CapsLock, giving the lower-case umlaut. Patch: CapsLock and Shift no
// longer cancel on these three keys, giving the capital. Passes on HEAD, fails with the patch.
use pc_keyboard::layouts::De105Key;
use pc_keyboard::{
    DecodedKey, HandleControl, KeyCode, KeyEvent, KeyState, Keyboard, KeyboardLayout, Modifiers,
    ScancodeSet2,
};

#[test]
fn de_capslock_plus_shift_umlauts_direct() {
    let m = Modifiers {
        lshift: false,
        rshift: true,
        lctrl: false,
        rctrl: false,
        numlock: true,
        capslock: true,
        lalt: false,
        ralt: false,
        rctrl2: false,
    };
    for (key, lower) in [
        (KeyCode::Oem4, 'ü'),
        (KeyCode::Oem1, 'ö'),
        (KeyCode::Oem3, 'ä'),
    ] {
        assert_eq!(
            De105Key.map_keycode(key, &m, HandleControl::Ignore),
            DecodedKey::Unicode(lower)
        );
    }
}

#[test]
fn de_capslock_plus_shift_u_umlaut_from_scancodes() {
    let mut k = Keyboard::new(
        ScancodeSet2::new(),
        De105Key,
        HandleControl::MapLettersToUnicode,
    );
    let mut last = None;
    // CapsLock make, CapsLock break, LShift make, '[' position (ü) make
    for b in [0x58u8, 0xF0, 0x58, 0x12, 0x54] {
        if let Some(ev) = k.add_byte(b).unwrap() {
            last = k.process_keyevent(ev);
        }
    }
    assert!(k.get_modifiers().capslock && k.get_modifiers().lshift);
    assert_eq!(last, Some(DecodedKey::Unicode('ü')));
    // sanity: the key event really was Oem4
    let _ = KeyEvent::new(KeyCode::Oem4, KeyState::Down);
}
