// Demonstrates near-miss n3: HandleControl::MapLettersToUnicode with a Ctrl key AND an Alt key
// held, on the letter keys that carry an AltGr character (German Q/E, Norwegian and
// Finnish/Swedish E/M). HEAD: the Ctrl mapping wins (control code). Patch: the AltGr level wins
// (@ / euro / micro). Passes on HEAD, fails with the patch.
use pc_keyboard::layouts::{De105Key, FiSe105Key, No105Key};
use pc_keyboard::{
    DecodedKey, HandleControl, KeyCode, KeyEvent, KeyState, Keyboard, KeyboardLayout, Modifiers,
    ScancodeSet1,
};

fn ctrl_alt(lalt: bool, ralt: bool) -> Modifiers {
    Modifiers {
        lshift: false,
        rshift: false,
        lctrl: true,
        rctrl: false,
        numlock: true,
        capslock: false,
        lalt,
        ralt,
        rctrl2: false,
    }
}

#[test]
fn ctrl_mapping_beats_altgr_direct() {
    let h = HandleControl::MapLettersToUnicode;
    for m in [ctrl_alt(true, false), ctrl_alt(false, true)] {
        assert_eq!(
            De105Key.map_keycode(KeyCode::Q, &m, h),
            DecodedKey::Unicode('\u{11}')
        );
        assert_eq!(
            De105Key.map_keycode(KeyCode::E, &m, h),
            DecodedKey::Unicode('\u{5}')
        );
        assert_eq!(
            No105Key.map_keycode(KeyCode::M, &m, h),
            DecodedKey::Unicode('\u{d}')
        );
        assert_eq!(
            FiSe105Key.map_keycode(KeyCode::E, &m, h),
            DecodedKey::Unicode('\u{5}')
        );
    }
}

#[test]
fn ctrl_alt_q_german_from_set1_scancodes() {
    let mut k = Keyboard::new(
        ScancodeSet1::new(),
        De105Key,
        HandleControl::MapLettersToUnicode,
    );
    let mut last = None;
    // LControl make (0x1D), LAlt make (0x38), Q make (0x10)
    for b in [0x1Du8, 0x38, 0x10] {
        if let Some(ev) = k.add_byte(b).unwrap() {
            last = k.process_keyevent(ev);
        }
    }
    assert!(k.get_modifiers().lctrl && k.get_modifiers().lalt);
    assert_eq!(last, Some(DecodedKey::Unicode('\u{11}')));
    let _ = KeyEvent::new(KeyCode::Q, KeyState::Down);
}
