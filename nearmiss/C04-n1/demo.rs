use pc_keyboard::*;

// A held modifier key auto-repeats: the keyboard sends the make code again and
// again. Every such press event is reported as a RawKey by process_keyevent.
#[test]
fn repeated_modifier_press_is_reported_every_time() {
    for (code, _name) in [
        (KeyCode::LShift, "lshift"),
        (KeyCode::RShift, "rshift"),
        (KeyCode::LControl, "lctrl"),
        (KeyCode::RControl, "rctrl"),
        (KeyCode::LAlt, "lalt"),
        (KeyCode::RAltGr, "ralt"),
        (KeyCode::RControl2, "rctrl2"),
    ] {
        let mut k = Keyboard::new(
            ScancodeSet2::new(),
            layouts::Us104Key,
            HandleControl::MapLettersToUnicode,
        );
        let down = KeyEvent::new(code, KeyState::Down);
        assert_eq!(k.process_keyevent(down.clone()), Some(DecodedKey::RawKey(code)));
        // typematic repeat of the same key
        assert_eq!(k.process_keyevent(down.clone()), Some(DecodedKey::RawKey(code)));
        assert_eq!(k.process_keyevent(down), Some(DecodedKey::RawKey(code)));
    }
}
