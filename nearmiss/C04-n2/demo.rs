use pc_keyboard::*;

// A SingleShot key event (press+release as one atomic action, or a status
// report such as the power-on self test) produces no decoded key.
#[test]
fn single_shot_events_decode_to_nothing() {
    let mut k = Keyboard::new(
        ScancodeSet2::new(),
        layouts::Us104Key,
        HandleControl::MapLettersToUnicode,
    );
    // What scancode set 2 really produces for byte 0xAA
    let ev = k.add_byte(0xAA).unwrap().unwrap();
    assert_eq!(ev, KeyEvent::new(KeyCode::PowerOnTestOk, KeyState::SingleShot));
    assert_eq!(k.process_keyevent(ev), None);
    // Hand-made one-shot events for an ordinary key, a modifier and a lock key
    for code in [KeyCode::A, KeyCode::LShift, KeyCode::CapsLock, KeyCode::NumpadLock] {
        assert_eq!(
            k.process_keyevent(KeyEvent::new(code, KeyState::SingleShot)),
            None,
            "{:?}",
            code
        );
    }
}
