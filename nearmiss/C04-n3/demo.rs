use pc_keyboard::*;

// The 'hidden' Ctrl key that forms the first half of a Pause sequence is not
// a Ctrl key for decoding purposes: Modifiers::is_ctrl() looks only at the
// real left and right Ctrl keys, so letters are not mapped to control codes
// and Left-Alt is not promoted to AltGr.
#[test]
fn hidden_pause_ctrl_is_not_a_ctrl_key() {
    let mut k = Keyboard::new(
        ScancodeSet2::new(),
        layouts::Us104Key,
        HandleControl::MapLettersToUnicode,
    );
    assert_eq!(
        k.process_keyevent(KeyEvent::new(KeyCode::RControl2, KeyState::Down)),
        Some(DecodedKey::RawKey(KeyCode::RControl2))
    );
    // The modifier state itself: only rctrl2 is held.
    let m = k.get_modifiers().clone();
    assert!(m.rctrl2 && !m.lctrl && !m.rctrl);
    // Derived predicates
    assert!(!m.is_ctrl());
    let m2 = Modifiers { lalt: true, ..m };
    assert!(!m2.is_altgr());
    // Decoding of a letter while the hidden Ctrl is held
    assert_eq!(
        k.process_keyevent(KeyEvent::new(KeyCode::A, KeyState::Down)),
        Some(DecodedKey::Unicode('a'))
    );
}
