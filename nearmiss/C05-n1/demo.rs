// Behaviour on u16 words that are NOT packed into the bottom 11 bits
// (bits 11..=15 set). Upstream ignores those bits and decodes the low 11 bits.
use pc_keyboard::{
    layouts, HandleControl, KeyCode, KeyEvent, KeyState, Keyboard, Ps2Decoder, ScancodeSet2,
};

#[test]
fn high_bits_are_ignored_by_ps2decoder_add_word() {
    let d = Ps2Decoder::new();
    // 0x0402 is the valid frame for byte 0x01; set each of the bits 11..=15 on top of it
    for hi in 11..16 {
        assert_eq!(d.add_word(0x0402 | (1u16 << hi)), Ok(0x01));
    }
    assert_eq!(d.add_word(0x0402 | 0xF800), Ok(0x01));
}

#[test]
fn high_bits_are_ignored_by_keyboard_add_word() {
    let mut k = Keyboard::new(
        ScancodeSet2::new(),
        layouts::Us104Key,
        HandleControl::MapLettersToUnicode,
    );
    assert_eq!(
        k.add_word(0x8402),
        Ok(Some(KeyEvent::new(KeyCode::F9, KeyState::Down)))
    );
}
