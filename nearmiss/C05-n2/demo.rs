// Mixing the bit-wise and the word-wise entry points on one Keyboard, which the
// documentation of `add_bit` tells callers not to do. Upstream keeps the two
// paths independent: `add_word` neither reads nor disturbs the partially
// filled bit register, so a frame started with `add_bit` can be completed
// after an interleaved `add_word`.
use pc_keyboard::{
    layouts, HandleControl, KeyCode, KeyEvent, KeyState, Keyboard, ScancodeSet2,
};

#[test]
fn add_word_does_not_disturb_a_partially_received_bit_frame() {
    let mut k = Keyboard::new(
        ScancodeSet2::new(),
        layouts::Us104Key,
        HandleControl::MapLettersToUnicode,
    );
    // frame for byte 0x01 (F9 in set 2) is 0x0402; feed its first 5 bits bit-wise
    let frame: u16 = 0x0402;
    for i in 0..5 {
        assert_eq!(k.add_bit((frame >> i) & 1 == 1), Ok(None));
    }
    // a complete frame for 0x1C ('A' in set 2) arrives through add_word
    let a_frame: u16 = (0x1C << 1) | (0 << 9) | (1 << 10); // 0x1C has three ones -> parity 0
    assert_eq!(
        k.add_word(a_frame),
        Ok(Some(KeyEvent::new(KeyCode::A, KeyState::Down)))
    );
    // the remaining 6 bits complete the F9 frame
    for i in 5..10 {
        assert_eq!(k.add_bit((frame >> i) & 1 == 1), Ok(None));
    }
    assert_eq!(
        k.add_bit((frame >> 10) & 1 == 1),
        Ok(Some(KeyEvent::new(KeyCode::F9, KeyState::Down)))
    );
}
