// The partially filled bit register of a Ps2Decoder is visible through its
// public `Debug` implementation. Upstream stores the i-th received bit in
// bit i of `register` (LSB-aligned) while a frame is being received.
use pc_keyboard::Ps2Decoder;

#[test]
fn partial_frame_is_lsb_aligned_in_debug_output() {
    let mut d = Ps2Decoder::new();
    assert_eq!(format!("{:?}", d), "Ps2Decoder { register: 0, num_bits: 0 }");
    // start bit 0, then data bits 1, 0, 1
    assert_eq!(d.add_bit(false), Ok(None));
    assert_eq!(d.add_bit(true), Ok(None));
    assert_eq!(format!("{:?}", d), "Ps2Decoder { register: 2, num_bits: 2 }");
    assert_eq!(d.add_bit(false), Ok(None));
    assert_eq!(d.add_bit(true), Ok(None));
    assert_eq!(format!("{:?}", d), "Ps2Decoder { register: 10, num_bits: 4 }");
    d.clear();
    assert_eq!(format!("{:?}", d), "Ps2Decoder { register: 0, num_bits: 0 }");
}
