// A frame whose start bit AND stop bit are both wrong: which error is reported?
// Original crate: the start bit is examined first -> BadStartBit.
use pc_keyboard::{layouts, Error, HandleControl, Keyboard, Ps2Decoder, ScancodeSet2};

#[test]
fn both_framing_bits_bad_reports_start_bit_first() {
    // bit 0 (start) = 1 -> bad, bit 10 (stop) = 0 -> bad, data = 0x00, parity bit = 1 (correct)
    let word: u16 = 0x0201;
    assert_eq!(Ps2Decoder::new().add_word(word), Err(Error::BadStartBit));

    let mut kb = Keyboard::new(ScancodeSet2::new(), layouts::Us104Key, HandleControl::Ignore);
    assert_eq!(kb.add_word(word), Err(Error::BadStartBit));

    // same frame bit-serially
    let mut d = Ps2Decoder::new();
    for i in 0..10 {
        assert_eq!(d.add_bit((word >> i) & 1 != 0), Ok(None));
    }
    assert_eq!(d.add_bit((word >> 10) & 1 != 0), Err(Error::BadStartBit));
}
