// A 16-bit word whose low 11 bits are a valid frame but which has junk above bit 10
// (outside the documented "packed into the bottom 11 bits" precondition).
// Original crate: the upper five bits are ignored and the frame decodes.
use pc_keyboard::{
    layouts, HandleControl, KeyCode, KeyEvent, KeyState, Keyboard, Ps2Decoder, ScancodeSet2,
};

#[test]
fn bits_above_the_frame_are_ignored() {
    // 0x0402 = valid frame for data 0x01 (F9 in set 2); 0x8402 = same with bit 15 set
    assert_eq!(Ps2Decoder::new().add_word(0x0402), Ok(0x01));
    assert_eq!(Ps2Decoder::new().add_word(0x8402), Ok(0x01));
    assert_eq!(Ps2Decoder::new().add_word(0x0C02), Ok(0x01));

    let mut kb = Keyboard::new(ScancodeSet2::new(), layouts::Us104Key, HandleControl::Ignore);
    assert_eq!(
        kb.add_word(0xFC02),
        Ok(Some(KeyEvent::new(KeyCode::F9, KeyState::Down)))
    );
}
