// Keyboard::clear() is documented as "Clears the bit register": it must not touch
// anything else, in particular not the modifier state kept by the event decoder.
use pc_keyboard::{
    layouts, DecodedKey, HandleControl, KeyCode, KeyEvent, KeyState, Keyboard, ScancodeSet2,
};

#[test]
fn clear_only_clears_the_bit_register() {
    let mut kb = Keyboard::new(ScancodeSet2::new(), layouts::Us104Key, HandleControl::Ignore);
    // hold left shift
    kb.process_keyevent(KeyEvent::new(KeyCode::LShift, KeyState::Down));
    assert!(kb.get_modifiers().lshift);
    // a partial frame arrives, then the read times out
    assert_eq!(kb.add_bit(false), Ok(None));
    assert_eq!(kb.add_bit(true), Ok(None));
    assert_eq!(kb.add_bit(true), Ok(None));
    kb.clear();
    // shift is still held
    assert!(kb.get_modifiers().lshift);
    assert_eq!(
        kb.process_keyevent(KeyEvent::new(KeyCode::A, KeyState::Down)),
        Some(DecodedKey::Unicode('A'))
    );
}
