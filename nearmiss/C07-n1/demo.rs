//! Demonstrates the behaviour change of near-miss C07/n1 (public API only).
//! Passes on the original crate, fails with the patch applied.
use pc_keyboard::{KeyCode, KeyEvent, KeyState, ScancodeSet, ScancodeSet2};

#[test]
fn set2_release_prefix_then_status_byte_is_reported_as_up() {
    // F0 00: release prefix followed by the 'too many keys' status byte.
    let mut s = ScancodeSet2::new();
    assert_eq!(s.advance_state(0xF0), Ok(None));
    assert_eq!(
        s.advance_state(0x00),
        Ok(Some(KeyEvent::new(KeyCode::TooManyKeys, KeyState::Up)))
    );
    // F0 AA: release prefix followed by the 'self test passed' status byte.
    assert_eq!(s.advance_state(0xF0), Ok(None));
    assert_eq!(
        s.advance_state(0xAA),
        Ok(Some(KeyEvent::new(KeyCode::PowerOnTestOk, KeyState::Up)))
    );
    // In both trees the decoder is back at the start afterwards.
    assert_eq!(
        s.advance_state(0x1C),
        Ok(Some(KeyEvent::new(KeyCode::A, KeyState::Down)))
    );
}
