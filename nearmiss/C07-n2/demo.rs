//! Demonstrates the behaviour change of near-miss C07/n2 (public API only).
//! Passes on the original crate, fails with the patch applied.
use pc_keyboard::{Error, KeyCode, KeyEvent, KeyState, ScancodeSet, ScancodeSet2};

#[test]
fn set2_release_prefix_then_extended_prefix_is_an_error() {
    // F0 E0 6C: the original decoder rejects the E0 (it is not a key that can
    // be released) and then reads 6C on its own.
    let mut s = ScancodeSet2::new();
    assert_eq!(s.advance_state(0xF0), Ok(None));
    assert_eq!(s.advance_state(0xE0), Err(Error::UnknownKeyCode));
    assert_eq!(
        s.advance_state(0x6C),
        Ok(Some(KeyEvent::new(KeyCode::Numpad7, KeyState::Down)))
    );
}

#[test]
fn set2_release_prefix_then_extended2_prefix_is_an_error() {
    let mut s = ScancodeSet2::new();
    assert_eq!(s.advance_state(0xF0), Ok(None));
    assert_eq!(s.advance_state(0xE1), Err(Error::UnknownKeyCode));
    assert_eq!(
        s.advance_state(0x14),
        Ok(Some(KeyEvent::new(KeyCode::LControl, KeyState::Down)))
    );
}
