//! Demonstrates the behaviour change of near-miss C07/n3 (public API only).
//! Passes on the original crate, fails with the patch applied.
use pc_keyboard::{Error, KeyCode, KeyEvent, KeyState, ScancodeSet, ScancodeSet1};

#[test]
fn set1_extended_prefix_then_non_extended_code_is_an_error() {
    let mut s = ScancodeSet1::new();
    // E0 1E: there is no extended key 1E (1E alone is 'A').
    assert_eq!(s.advance_state(0xE0), Ok(None));
    assert_eq!(s.advance_state(0x1E), Err(Error::UnknownKeyCode));
    // E0 9E: likewise for the break code.
    assert_eq!(s.advance_state(0xE0), Ok(None));
    assert_eq!(s.advance_state(0x9E), Err(Error::UnknownKeyCode));
    // In both trees the decoder is back at the start afterwards.
    assert_eq!(
        s.advance_state(0x1E),
        Ok(Some(KeyEvent::new(KeyCode::A, KeyState::Down)))
    );
}
