// Demonstrates the behaviour change of near-miss C08/n1 (passes on the original tree).
use pc_keyboard::layouts::Us104Key;
use pc_keyboard::*;

#[test]
fn high_bit_on_idle_decoder_is_shifted_in_and_reported_at_bit_11() {
    let mut d = Ps2Decoder::new();
    // Original: a '1' arriving on an idle decoder is silently taken as bit 0 of a frame ...
    assert_eq!(d.add_bit(true), Ok(None));
    for _ in 0..9 {
        assert_eq!(d.add_bit(false), Ok(None));
    }
    // ... and the bad start bit is only reported when the 11th bit arrives.
    assert_eq!(d.add_bit(true), Err(Error::BadStartBit));
}

#[test]
fn keyboard_level_misaligned_frame_eats_eleven_bits() {
    let mut k = Keyboard::new(ScancodeSet2::new(), Us104Key, HandleControl::Ignore);
    // one stray idle-high bit, then a good frame for F9 (0x01): 0 10000000 0 1
    let good = [false, true, false, false, false, false, false, false, false, false, true];
    let mut results = Vec::new();
    results.push(k.add_bit(true));
    for b in good {
        results.push(k.add_bit(b));
    }
    // Original: the stray bit shifts the frame window, so the good frame is NOT decoded
    // within these 12 bits.
    assert!(!results.contains(&Ok(Some(KeyEvent::new(KeyCode::F9, KeyState::Down)))));
}
