// Demonstrates the behaviour change of near-miss C08/n2 (passes on the original tree).
use pc_keyboard::layouts::Us104Key;
use pc_keyboard::*;

#[test]
fn set1_f0_is_an_unknown_code_and_leaves_no_state_behind() {
    let mut s = ScancodeSet1::new();
    // Original: 0xF0 is the break code of the unassigned make code 0x70 -> error
    assert_eq!(s.advance_state(0xF0), Err(Error::UnknownKeyCode));
    // ... and the decoder is still in its start state: 0x1E is 'A' pressed
    assert_eq!(
        s.advance_state(0x1E),
        Ok(Some(KeyEvent::new(KeyCode::A, KeyState::Down)))
    );
}

#[test]
fn set1_f0_through_keyboard() {
    let mut k = Keyboard::new(ScancodeSet1::new(), Us104Key, HandleControl::Ignore);
    assert_eq!(k.add_byte(0xF0), Err(Error::UnknownKeyCode));
    assert_eq!(
        k.add_byte(0x9E),
        Ok(Some(KeyEvent::new(KeyCode::A, KeyState::Up)))
    );
    assert_eq!(
        k.add_byte(0x10),
        Ok(Some(KeyEvent::new(KeyCode::Q, KeyState::Down)))
    );
}
