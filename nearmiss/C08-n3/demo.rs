// Demonstrates the behaviour change of near-miss C08/n3 (passes on the original tree).
use pc_keyboard::layouts::{AnyLayout, Uk105Key, Us104Key};
use pc_keyboard::*;

fn ctrl() -> Modifiers {
    Modifiers {
        lctrl: true,
        numlock: true,
        ..Modifiers::default()
    }
}

#[test]
fn us104_ctrl_bracket_keys_are_not_control_mapped() {
    let m = ctrl();
    let mode = HandleControl::MapLettersToUnicode;
    // Original: only the letters A-Z are Ctrl-mapped; punctuation is left alone.
    assert_eq!(Us104Key.map_keycode(KeyCode::Oem4, &m, mode), DecodedKey::Unicode('['));
    assert_eq!(Us104Key.map_keycode(KeyCode::Oem6, &m, mode), DecodedKey::Unicode(']'));
    assert_eq!(Us104Key.map_keycode(KeyCode::Oem7, &m, mode), DecodedKey::Unicode('\\'));
    let ms = Modifiers { rshift: true, ..ctrl() };
    assert_eq!(Us104Key.map_keycode(KeyCode::Oem4, &ms, mode), DecodedKey::Unicode('{'));
}

#[test]
fn uk105_via_anylayout_and_event_decoder() {
    let mut d = EventDecoder::new(
        AnyLayout::Uk105Key(Uk105Key),
        HandleControl::MapLettersToUnicode,
    );
    assert_eq!(
        d.process_keyevent(KeyEvent::new(KeyCode::RControl, KeyState::Down)),
        Some(DecodedKey::RawKey(KeyCode::RControl))
    );
    assert_eq!(
        d.process_keyevent(KeyEvent::new(KeyCode::Oem4, KeyState::Down)),
        Some(DecodedKey::Unicode('['))
    );
}
