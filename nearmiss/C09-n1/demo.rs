// Ctrl+Alt+letter with Ctrl-letter mapping enabled: HEAD still yields the control
// character; the patched crate lets the Alt chord through as the layout's character.
use pc_keyboard::layouts::{De105Key, Us104Key};
use pc_keyboard::{
    DecodedKey, EventDecoder, HandleControl, KeyCode, KeyEvent, KeyState, KeyboardLayout,
    Modifiers,
};

#[test]
fn ctrl_alt_letter_still_gives_control_character() {
    // Through the event decoder: LControl, LAlt, then A.
    let mut dec = EventDecoder::new(Us104Key, HandleControl::MapLettersToUnicode);
    assert_eq!(
        dec.process_keyevent(KeyEvent::new(KeyCode::LControl, KeyState::Down)),
        Some(DecodedKey::RawKey(KeyCode::LControl))
    );
    assert_eq!(
        dec.process_keyevent(KeyEvent::new(KeyCode::LAlt, KeyState::Down)),
        Some(DecodedKey::RawKey(KeyCode::LAlt))
    );
    assert_eq!(
        dec.process_keyevent(KeyEvent::new(KeyCode::A, KeyState::Down)),
        Some(DecodedKey::Unicode('\u{0001}'))
    );
}

#[test]
fn ctrl_altgr_q_on_german_layout_gives_control_character() {
    let m = Modifiers {
        rctrl: true,
        ralt: true,
        numlock: true,
        ..Modifiers::default()
    };
    assert_eq!(
        De105Key.map_keycode(KeyCode::Q, &m, HandleControl::MapLettersToUnicode),
        DecodedKey::Unicode('\u{0011}')
    );
}
