// The German layout is QWERTZ: the key in the US "Y" position types 'z' and the key in
// the US "Z" position types 'y'. HEAD honours that; the patched crate types y/z in their
// US positions (and moves the control characters along with the letters).
use pc_keyboard::layouts::De105Key;
use pc_keyboard::{DecodedKey, EventDecoder, HandleControl, KeyCode, KeyEvent, KeyState};

#[test]
fn german_layout_is_qwertz() {
    let mut dec = EventDecoder::new(De105Key, HandleControl::MapLettersToUnicode);
    assert_eq!(
        dec.process_keyevent(KeyEvent::new(KeyCode::Y, KeyState::Down)),
        Some(DecodedKey::Unicode('z'))
    );
    assert_eq!(
        dec.process_keyevent(KeyEvent::new(KeyCode::Z, KeyState::Down)),
        Some(DecodedKey::Unicode('y'))
    );
}

#[test]
fn german_ctrl_on_y_position_is_ctrl_z() {
    let mut dec = EventDecoder::new(De105Key, HandleControl::MapLettersToUnicode);
    dec.process_keyevent(KeyEvent::new(KeyCode::LControl, KeyState::Down));
    assert_eq!(
        dec.process_keyevent(KeyEvent::new(KeyCode::Y, KeyState::Down)),
        Some(DecodedKey::Unicode('\u{001A}'))
    );
}
