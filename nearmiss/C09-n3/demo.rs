// A held Ctrl survives the keyboard's power-on self-test report (0xAA) on HEAD;
// the patched crate forgets held modifiers when the keyboard reports a reset.
use pc_keyboard::layouts::Us104Key;
use pc_keyboard::{
    DecodedKey, HandleControl, KeyCode, KeyEvent, KeyState, Keyboard, ScancodeSet2,
};

#[test]
fn held_ctrl_survives_power_on_self_test() {
    let mut kb = Keyboard::new(
        ScancodeSet2::new(),
        Us104Key,
        HandleControl::MapLettersToUnicode,
    );
    // Left Ctrl make code
    let ev = kb.add_byte(0x14).unwrap().unwrap();
    assert_eq!(ev, KeyEvent::new(KeyCode::LControl, KeyState::Down));
    assert_eq!(
        kb.process_keyevent(ev),
        Some(DecodedKey::RawKey(KeyCode::LControl))
    );
    // Keyboard reports BAT completion
    let ev = kb.add_byte(0xAA).unwrap().unwrap();
    assert_eq!(ev, KeyEvent::new(KeyCode::PowerOnTestOk, KeyState::SingleShot));
    assert_eq!(kb.process_keyevent(ev), None);
    // Ctrl is still considered held ...
    assert!(kb.get_modifiers().lctrl);
    // ... so A is Ctrl+A
    let ev = kb.add_byte(0x1C).unwrap().unwrap();
    assert_eq!(ev, KeyEvent::new(KeyCode::A, KeyState::Down));
    assert_eq!(
        kb.process_keyevent(ev),
        Some(DecodedKey::Unicode('\u{0001}'))
    );
}
