//! Demonstrates the behaviour change of near-miss n1 (CapsLock toggles on key
//! release instead of key press). Passes on the original crate, fails with the patch.
use pc_keyboard::layouts::Us104Key;
use pc_keyboard::{DecodedKey, EventDecoder, HandleControl, KeyCode, KeyEvent, KeyState};

#[test]
fn letter_typed_while_capslock_key_is_still_held_is_capital() {
    let mut d = EventDecoder::new(Us104Key, HandleControl::Ignore);
    assert_eq!(
        d.process_keyevent(KeyEvent::new(KeyCode::CapsLock, KeyState::Down)),
        Some(DecodedKey::RawKey(KeyCode::CapsLock))
    );
    // CapsLock key not released yet
    assert_eq!(
        d.process_keyevent(KeyEvent::new(KeyCode::A, KeyState::Down)),
        Some(DecodedKey::Unicode('A'))
    );
}

#[test]
fn repeated_capslock_make_codes_toggle_each_time() {
    let mut d = EventDecoder::new(Us104Key, HandleControl::Ignore);
    // typematic repeat: two Down events, one Up
    d.process_keyevent(KeyEvent::new(KeyCode::CapsLock, KeyState::Down));
    d.process_keyevent(KeyEvent::new(KeyCode::CapsLock, KeyState::Down));
    d.process_keyevent(KeyEvent::new(KeyCode::CapsLock, KeyState::Up));
    // original: toggled twice -> off
    assert_eq!(
        d.process_keyevent(KeyEvent::new(KeyCode::A, KeyState::Down)),
        Some(DecodedKey::Unicode('a'))
    );
}
