//! Demonstrates the behaviour change of near-miss n2 (German layout: AltGr level
//! of Q and E now wins over the Ctrl+letter mapping). Passes on the original
//! crate, fails with the patch.
use pc_keyboard::layouts::De105Key;
use pc_keyboard::{
    DecodedKey, EventDecoder, HandleControl, KeyCode, KeyEvent, KeyState, KeyboardLayout,
    Modifiers,
};

#[test]
fn ctrl_alt_q_is_a_control_code_when_mapping_letters() {
    // Ctrl+Alt is AltGr; in MapLettersToUnicode mode the original gives Ctrl+Q = U+0011
    let mut d = EventDecoder::new(De105Key, HandleControl::MapLettersToUnicode);
    d.process_keyevent(KeyEvent::new(KeyCode::LControl, KeyState::Down));
    d.process_keyevent(KeyEvent::new(KeyCode::LAlt, KeyState::Down));
    assert_eq!(
        d.process_keyevent(KeyEvent::new(KeyCode::Q, KeyState::Down)),
        Some(DecodedKey::Unicode('\u{0011}'))
    );
}

#[test]
fn ctrl_altgr_e_is_a_control_code_when_mapping_letters() {
    let m = Modifiers {
        lshift: false,
        rshift: false,
        lctrl: false,
        rctrl: true,
        numlock: true,
        capslock: false,
        lalt: false,
        ralt: true,
        rctrl2: false,
    };
    assert_eq!(
        De105Key.map_keycode(KeyCode::E, &m, HandleControl::MapLettersToUnicode),
        DecodedKey::Unicode('\u{0005}')
    );
}
