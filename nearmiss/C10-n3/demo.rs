//! Demonstrates the behaviour change of near-miss n3 (`Modifiers::is_caps()` now
//! reports the CapsLock toggle alone; the Shift inversion moved into a private
//! helper used by the layouts). Passes on the original crate, fails with the patch.
use pc_keyboard::Modifiers;

fn m(lshift: bool, rshift: bool, capslock: bool) -> Modifiers {
    Modifiers {
        lshift,
        rshift,
        lctrl: false,
        rctrl: false,
        numlock: true,
        capslock,
        lalt: false,
        ralt: false,
        rctrl2: false,
    }
}

#[test]
fn is_caps_is_true_with_shift_alone() {
    assert!(m(true, false, false).is_caps());
    assert!(m(false, true, false).is_caps());
}

#[test]
fn is_caps_is_false_with_shift_and_capslock() {
    assert!(!m(true, false, true).is_caps());
    assert!(!m(true, true, true).is_caps());
}
