// Demonstrates near-miss n1 for C11: with the patch, holding Shift while NumLock is on
// turns the numpad digit keys into their navigation meaning (Shift overrides NumLock).
// Passes on the original crate, fails on the patched one.
use pc_keyboard::layouts::{Uk105Key, Us104Key};
use pc_keyboard::{
    DecodedKey, EventDecoder, HandleControl, KeyCode, KeyEvent, KeyState, KeyboardLayout,
    Modifiers,
};

fn shift_numlock() -> Modifiers {
    Modifiers {
        lshift: true,
        rshift: false,
        lctrl: false,
        rctrl: false,
        numlock: true,
        capslock: false,
        lalt: false,
        ralt: false,
        rctrl2: false,
    }
}

#[test]
fn shift_does_not_affect_numpad_digits_direct() {
    let m = shift_numlock();
    assert_eq!(
        Us104Key.map_keycode(KeyCode::Numpad7, &m, HandleControl::Ignore),
        DecodedKey::Unicode('7')
    );
    // layouts that fall back to the US table see the same thing
    assert_eq!(
        Uk105Key.map_keycode(KeyCode::NumpadPeriod, &m, HandleControl::MapLettersToUnicode),
        DecodedKey::Unicode('.')
    );
}

#[test]
fn shift_does_not_affect_numpad_digits_via_event_decoder() {
    // NumLock is on after construction.
    let mut dec = EventDecoder::new(Us104Key, HandleControl::Ignore);
    dec.process_keyevent(KeyEvent::new(KeyCode::RShift, KeyState::Down));
    assert_eq!(
        dec.process_keyevent(KeyEvent::new(KeyCode::Numpad4, KeyState::Down)),
        Some(DecodedKey::Unicode('4'))
    );
}
