// Demonstrates near-miss n2 for C11: on the German layout, in MapLettersToUnicode mode,
// Ctrl+Alt+Q (= AltGr+Q) used to give U+0011; with the patch AltGr wins and it gives '@'.
// Passes on the original crate, fails on the patched one.
use pc_keyboard::layouts::De105Key;
use pc_keyboard::{
    DecodedKey, EventDecoder, HandleControl, KeyCode, KeyEvent, KeyState, KeyboardLayout,
    Modifiers,
};

fn none() -> Modifiers {
    Modifiers {
        lshift: false,
        rshift: false,
        lctrl: false,
        rctrl: false,
        numlock: true,
        capslock: false,
        lalt: false,
        ralt: false,
        rctrl2: false,
    }
}

#[test]
fn ctrl_wins_over_altgr_direct() {
    let mut m = none();
    m.lctrl = true;
    m.lalt = true; // Ctrl + left Alt == AltGr
    assert_eq!(
        De105Key.map_keycode(KeyCode::Q, &m, HandleControl::MapLettersToUnicode),
        DecodedKey::Unicode('\u{0011}')
    );
    let mut m = none();
    m.rctrl = true;
    m.ralt = true;
    assert_eq!(
        De105Key.map_keycode(KeyCode::E, &m, HandleControl::MapLettersToUnicode),
        DecodedKey::Unicode('\u{0005}')
    );
}

#[test]
fn ctrl_wins_over_altgr_via_event_decoder() {
    let mut dec = EventDecoder::new(De105Key, HandleControl::MapLettersToUnicode);
    dec.process_keyevent(KeyEvent::new(KeyCode::LControl, KeyState::Down));
    dec.process_keyevent(KeyEvent::new(KeyCode::LAlt, KeyState::Down));
    assert_eq!(
        dec.process_keyevent(KeyEvent::new(KeyCode::Q, KeyState::Down)),
        Some(DecodedKey::Unicode('\u{0011}'))
    );
}
