// Demonstrates near-miss n3 for C11: on the AZERTY layout the digit row used to look at
// Shift only; with the patch it follows Shift XOR CapsLock (CapsLock acts as a shift lock
// for the digit row, as on French PC keyboards).
// Passes on the original crate, fails on the patched one.
use pc_keyboard::layouts::Azerty;
use pc_keyboard::{
    DecodedKey, EventDecoder, HandleControl, KeyCode, KeyEvent, KeyState, KeyboardLayout,
    Modifiers,
};

fn none() -> Modifiers {
    Modifiers {
        lshift: false,
        rshift: false,
        lctrl: false,
        rctrl: false,
        numlock: true,
        capslock: false,
        lalt: false,
        ralt: false,
        rctrl2: false,
    }
}

#[test]
fn capslock_does_not_affect_digit_row_direct() {
    let mut m = none();
    m.capslock = true;
    assert_eq!(
        Azerty.map_keycode(KeyCode::Key1, &m, HandleControl::Ignore),
        DecodedKey::Unicode('&')
    );
    // Shift + CapsLock: still the shifted level
    m.rshift = true;
    assert_eq!(
        Azerty.map_keycode(KeyCode::Key0, &m, HandleControl::MapLettersToUnicode),
        DecodedKey::Unicode('0')
    );
}

#[test]
fn capslock_does_not_affect_digit_row_via_event_decoder() {
    let mut dec = EventDecoder::new(Azerty, HandleControl::Ignore);
    dec.process_keyevent(KeyEvent::new(KeyCode::CapsLock, KeyState::Down));
    dec.process_keyevent(KeyEvent::new(KeyCode::CapsLock, KeyState::Up));
    assert_eq!(
        dec.process_keyevent(KeyEvent::new(KeyCode::Key2, KeyState::Down)),
        Some(DecodedKey::Unicode('é'))
    );
}
