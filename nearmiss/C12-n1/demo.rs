// Demonstrates the behaviour change of near-miss C12/n1:
// on the Norwegian layout the key left of `1` (Oem8) yields '|' unshifted and
// '§' shifted at HEAD; the patch swaps the two levels.
use pc_keyboard::layouts::No105Key;
use pc_keyboard::{DecodedKey, EventDecoder, HandleControl, KeyCode, KeyEvent, KeyState};

#[test]
fn no105_oem8_unshifted_is_pipe_shifted_is_section() {
    let mut dec = EventDecoder::new(No105Key, HandleControl::Ignore);
    assert_eq!(
        dec.process_keyevent(KeyEvent::new(KeyCode::Oem8, KeyState::Down)),
        Some(DecodedKey::Unicode('|'))
    );
    dec.process_keyevent(KeyEvent::new(KeyCode::Oem8, KeyState::Up));
    dec.process_keyevent(KeyEvent::new(KeyCode::LShift, KeyState::Down));
    assert_eq!(
        dec.process_keyevent(KeyEvent::new(KeyCode::Oem8, KeyState::Down)),
        Some(DecodedKey::Unicode('§'))
    );
}
