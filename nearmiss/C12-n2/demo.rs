// Demonstrates the behaviour change of near-miss C12/n2:
// on the UK layout AltGr + Oem8 (the key left of `1`) yields '|' at HEAD;
// the patch makes it yield the broken bar U+00A6 instead ('|' stays on Shift+Oem5).
use pc_keyboard::layouts::Uk105Key;
use pc_keyboard::{DecodedKey, EventDecoder, HandleControl, KeyCode, KeyEvent, KeyState};

#[test]
fn uk105_altgr_oem8_is_pipe() {
    let mut dec = EventDecoder::new(Uk105Key, HandleControl::Ignore);
    assert_eq!(
        dec.process_keyevent(KeyEvent::new(KeyCode::RAltGr, KeyState::Down)),
        Some(DecodedKey::RawKey(KeyCode::RAltGr))
    );
    assert_eq!(
        dec.process_keyevent(KeyEvent::new(KeyCode::Oem8, KeyState::Down)),
        Some(DecodedKey::Unicode('|'))
    );
}
