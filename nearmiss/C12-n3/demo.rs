// Demonstrates the behaviour change of near-miss C12/n3:
// on the German layout Shift+AltGr+Q yields '@' and Shift+AltGr+Oem6 yields '~'
// at HEAD (AltGr wins over Shift on these two keys); with the patch Shift wins
// ('Q' and '*'), as it already does on every other AltGr key of that layout.
use pc_keyboard::layouts::De105Key;
use pc_keyboard::{DecodedKey, EventDecoder, HandleControl, KeyCode, KeyEvent, KeyState};

#[test]
fn de105_shift_altgr_level_of_q_and_oem6() {
    let mut dec = EventDecoder::new(De105Key, HandleControl::Ignore);
    dec.process_keyevent(KeyEvent::new(KeyCode::LShift, KeyState::Down));
    dec.process_keyevent(KeyEvent::new(KeyCode::RAltGr, KeyState::Down));
    assert_eq!(
        dec.process_keyevent(KeyEvent::new(KeyCode::Q, KeyState::Down)),
        Some(DecodedKey::Unicode('@'))
    );
    assert_eq!(
        dec.process_keyevent(KeyEvent::new(KeyCode::Oem6, KeyState::Down)),
        Some(DecodedKey::Unicode('~'))
    );
}
