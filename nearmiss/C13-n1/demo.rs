// Demonstrates a behaviour change of the scancode decoders for the
// Insert / Delete keys of the extended block.
// Set 2: E0 70 = Insert, E0 71 = Delete.  Set 1: E0 52 = Insert, E0 53 = Delete.
use pc_keyboard::{
    layouts, DecodedKey, HandleControl, KeyCode, KeyEvent, KeyState, Keyboard, ScancodeSet,
    ScancodeSet1, ScancodeSet2,
};

fn feed<S: ScancodeSet>(s: &mut S, bytes: &[u8]) -> Option<KeyEvent> {
    let mut last = None;
    for b in bytes {
        last = s.advance_state(*b).expect("known code");
    }
    last
}

#[test]
fn set2_insert_delete() {
    let mut s = ScancodeSet2::new();
    assert_eq!(
        feed(&mut s, &[0xE0, 0x70]),
        Some(KeyEvent::new(KeyCode::Insert, KeyState::Down))
    );
    assert_eq!(
        feed(&mut s, &[0xE0, 0xF0, 0x70]),
        Some(KeyEvent::new(KeyCode::Insert, KeyState::Up))
    );
    assert_eq!(
        feed(&mut s, &[0xE0, 0x71]),
        Some(KeyEvent::new(KeyCode::Delete, KeyState::Down))
    );
    assert_eq!(
        feed(&mut s, &[0xE0, 0xF0, 0x71]),
        Some(KeyEvent::new(KeyCode::Delete, KeyState::Up))
    );
}

#[test]
fn set1_insert_delete() {
    let mut s = ScancodeSet1::new();
    assert_eq!(
        feed(&mut s, &[0xE0, 0x52]),
        Some(KeyEvent::new(KeyCode::Insert, KeyState::Down))
    );
    assert_eq!(
        feed(&mut s, &[0xE0, 0xD2]),
        Some(KeyEvent::new(KeyCode::Insert, KeyState::Up))
    );
    assert_eq!(
        feed(&mut s, &[0xE0, 0x53]),
        Some(KeyEvent::new(KeyCode::Delete, KeyState::Down))
    );
    assert_eq!(
        feed(&mut s, &[0xE0, 0xD3]),
        Some(KeyEvent::new(KeyCode::Delete, KeyState::Up))
    );
}

#[test]
fn delete_key_types_del_character() {
    let mut k = Keyboard::new(
        ScancodeSet2::new(),
        layouts::Us104Key,
        HandleControl::Ignore,
    );
    assert_eq!(k.add_byte(0xE0), Ok(None));
    let ev = k.add_byte(0x71).unwrap().unwrap();
    assert_eq!(k.process_keyevent(ev), Some(DecodedKey::Unicode('\u{7f}')));
}
