// Demonstrates a behaviour change of the Set 2 decoder for the two
// non-key bytes 0x00 (overrun / too many keys) and 0xAA (self-test passed)
// when they arrive after a prefix byte (F0, E0, E1).
use pc_keyboard::{Error, KeyCode, KeyEvent, KeyState, ScancodeSet, ScancodeSet2};

fn feed(bytes: &[u8]) -> Result<Option<KeyEvent>, Error> {
    let mut s = ScancodeSet2::new();
    let mut last = Ok(None);
    for b in bytes {
        last = s.advance_state(*b);
    }
    last
}

#[test]
fn release_prefix_then_overrun_is_a_key_up() {
    assert_eq!(
        feed(&[0xF0, 0x00]),
        Ok(Some(KeyEvent::new(KeyCode::TooManyKeys, KeyState::Up)))
    );
}

#[test]
fn release_prefix_then_bat_is_a_key_up() {
    assert_eq!(
        feed(&[0xF0, 0xAA]),
        Ok(Some(KeyEvent::new(KeyCode::PowerOnTestOk, KeyState::Up)))
    );
}

#[test]
fn extended_prefix_then_overrun_or_bat_is_unknown() {
    assert_eq!(feed(&[0xE0, 0x00]), Err(Error::UnknownKeyCode));
    assert_eq!(feed(&[0xE0, 0xAA]), Err(Error::UnknownKeyCode));
    assert_eq!(feed(&[0xE0, 0xF0, 0x00]), Err(Error::UnknownKeyCode));
    assert_eq!(feed(&[0xE1, 0x00]), Err(Error::UnknownKeyCode));
    assert_eq!(feed(&[0xE1, 0xF0, 0xAA]), Err(Error::UnknownKeyCode));
}
