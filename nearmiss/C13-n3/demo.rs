// Demonstrates a behaviour change of the Set 2 decoder's state machine for
// byte sequences that repeat a prefix byte (E0 E0, E1 E1, F0 F0).
// Without the change the second prefix byte is looked up as a key code, is
// unknown, and the decoder falls back to its start state.
use pc_keyboard::{Error, KeyCode, KeyEvent, KeyState, ScancodeSet, ScancodeSet2};

fn feed(bytes: &[u8]) -> Vec<Result<Option<KeyEvent>, Error>> {
    let mut s = ScancodeSet2::new();
    bytes.iter().map(|b| s.advance_state(*b)).collect()
}

#[test]
fn repeated_e0_is_an_unknown_code_and_resets() {
    assert_eq!(
        feed(&[0xE0, 0xE0, 0x6C]),
        vec![
            Ok(None),
            Err(Error::UnknownKeyCode),
            // decoder is back in the start state: 6C is Numpad7, not Home
            Ok(Some(KeyEvent::new(KeyCode::Numpad7, KeyState::Down))),
        ]
    );
}

#[test]
fn repeated_f0_is_an_unknown_code_and_resets() {
    assert_eq!(
        feed(&[0xF0, 0xF0, 0x1C]),
        vec![
            Ok(None),
            Err(Error::UnknownKeyCode),
            Ok(Some(KeyEvent::new(KeyCode::A, KeyState::Down))),
        ]
    );
    assert_eq!(
        feed(&[0xE0, 0xF0, 0xF0, 0x6C]),
        vec![
            Ok(None),
            Ok(None),
            Err(Error::UnknownKeyCode),
            Ok(Some(KeyEvent::new(KeyCode::Numpad7, KeyState::Down))),
        ]
    );
}

#[test]
fn repeated_e1_is_an_unknown_code_and_resets() {
    assert_eq!(
        feed(&[0xE1, 0xE1, 0x14]),
        vec![
            Ok(None),
            Err(Error::UnknownKeyCode),
            Ok(Some(KeyEvent::new(KeyCode::LControl, KeyState::Down))),
        ]
    );
}
