// Pause (hidden RControl2 + NumLock) must leave the Num Lock toggle alone.
use pc_keyboard::*;

#[test]
fn pause_does_not_toggle_numlock() {
    let mut k = Keyboard::new(
        ScancodeSet2::new(),
        layouts::Us104Key,
        HandleControl::MapLettersToUnicode,
    );
    assert!(k.get_modifiers().numlock);
    assert_eq!(
        k.process_keyevent(KeyEvent::new(KeyCode::Numpad1, KeyState::Down)),
        Some(DecodedKey::Unicode('1'))
    );
    // The Pause key: RControl2 down, NumpadLock down, RControl2 up, NumpadLock up
    assert_eq!(
        k.process_keyevent(KeyEvent::new(KeyCode::RControl2, KeyState::Down)),
        Some(DecodedKey::RawKey(KeyCode::RControl2))
    );
    assert_eq!(
        k.process_keyevent(KeyEvent::new(KeyCode::NumpadLock, KeyState::Down)),
        Some(DecodedKey::RawKey(KeyCode::PauseBreak))
    );
    assert_eq!(
        k.process_keyevent(KeyEvent::new(KeyCode::RControl2, KeyState::Up)),
        None
    );
    assert_eq!(
        k.process_keyevent(KeyEvent::new(KeyCode::NumpadLock, KeyState::Up)),
        None
    );
    // Num Lock is still on, the numpad still types digits
    assert!(k.get_modifiers().numlock);
    assert_eq!(
        k.process_keyevent(KeyEvent::new(KeyCode::Numpad1, KeyState::Down)),
        Some(DecodedKey::Unicode('1'))
    );
}
