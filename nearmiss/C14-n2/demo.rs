// A SingleShot event never changes the lock state.
use pc_keyboard::*;

#[test]
fn single_shot_lock_keys_change_nothing() {
    let mut k = Keyboard::new(
        ScancodeSet2::new(),
        layouts::Us104Key,
        HandleControl::MapLettersToUnicode,
    );
    let before = k.get_modifiers().clone();
    assert_eq!(
        k.process_keyevent(KeyEvent::new(KeyCode::CapsLock, KeyState::SingleShot)),
        None
    );
    assert_eq!(k.get_modifiers(), &before);
    assert_eq!(
        k.process_keyevent(KeyEvent::new(KeyCode::A, KeyState::Down)),
        Some(DecodedKey::Unicode('a'))
    );
    assert_eq!(
        k.process_keyevent(KeyEvent::new(KeyCode::NumpadLock, KeyState::SingleShot)),
        None
    );
    assert_eq!(k.get_modifiers(), &before);
    assert_eq!(
        k.process_keyevent(KeyEvent::new(KeyCode::Numpad1, KeyState::Down)),
        Some(DecodedKey::Unicode('1'))
    );
}
