// Changing the layout keeps the Caps Lock state.
use pc_keyboard::layouts::{AnyLayout, Azerty, Uk105Key};
use pc_keyboard::*;

#[test]
fn caps_lock_survives_a_layout_change() {
    let mut d = EventDecoder::new(AnyLayout::Uk105Key(Uk105Key), HandleControl::Ignore);
    assert_eq!(
        d.process_keyevent(KeyEvent::new(KeyCode::CapsLock, KeyState::Down)),
        Some(DecodedKey::RawKey(KeyCode::CapsLock))
    );
    assert_eq!(
        d.process_keyevent(KeyEvent::new(KeyCode::CapsLock, KeyState::Up)),
        None
    );
    assert_eq!(
        d.process_keyevent(KeyEvent::new(KeyCode::Q, KeyState::Down)),
        Some(DecodedKey::Unicode('Q'))
    );
    d.change_layout(AnyLayout::Azerty(Azerty));
    // new layout at once (Q position types 'a' on AZERTY), Caps Lock still on
    assert_eq!(
        d.process_keyevent(KeyEvent::new(KeyCode::Q, KeyState::Down)),
        Some(DecodedKey::Unicode('A'))
    );
}
