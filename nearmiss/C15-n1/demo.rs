// Demonstrates near-miss n1: the numpad centre key (Numpad5) with NumLock off.
// Original behaviour: it still types '5'. Passes on the original tree.
use pc_keyboard::layouts::{Azerty, Us104Key};
use pc_keyboard::{
    DecodedKey, EventDecoder, HandleControl, KeyCode, KeyEvent, KeyState, KeyboardLayout,
    Modifiers,
};

#[test]
fn numpad5_without_numlock_still_types_five() {
    let m = Modifiers {
        numlock: false,
        ..Modifiers::default()
    };
    assert_eq!(
        Us104Key.map_keycode(KeyCode::Numpad5, &m, HandleControl::Ignore),
        DecodedKey::Unicode('5')
    );
    assert_eq!(
        Azerty.map_keycode(KeyCode::Numpad5, &m, HandleControl::MapLettersToUnicode),
        DecodedKey::Unicode('5')
    );
}

#[test]
fn numpad5_after_numlock_toggle_still_types_five() {
    let mut dec = EventDecoder::new(Us104Key, HandleControl::Ignore);
    dec.process_keyevent(KeyEvent::new(KeyCode::NumpadLock, KeyState::Down));
    dec.process_keyevent(KeyEvent::new(KeyCode::NumpadLock, KeyState::Up));
    assert_eq!(
        dec.process_keyevent(KeyEvent::new(KeyCode::Numpad5, KeyState::Down)),
        Some(DecodedKey::Unicode('5'))
    );
}
