// Demonstrates near-miss n2: what a layout's `map_keycode` says about the Num Lock key
// itself while the hidden Pause control key (`rctrl2`) is held.
// Original behaviour: every layout reports the raw Num Lock key. Passes on the original tree.
use pc_keyboard::layouts::{AnyLayout, Colemak, De105Key, FiSe105Key, Us104Key};
use pc_keyboard::{DecodedKey, HandleControl, KeyCode, KeyboardLayout, Modifiers};

#[test]
fn layouts_report_numlock_key_raw_even_with_rctrl2() {
    let m = Modifiers {
        numlock: true,
        rctrl2: true,
        ..Modifiers::default()
    };
    for hc in [HandleControl::Ignore, HandleControl::MapLettersToUnicode] {
        assert_eq!(
            Us104Key.map_keycode(KeyCode::NumpadLock, &m, hc),
            DecodedKey::RawKey(KeyCode::NumpadLock)
        );
        assert_eq!(
            Colemak.map_keycode(KeyCode::NumpadLock, &m, hc),
            DecodedKey::RawKey(KeyCode::NumpadLock)
        );
        assert_eq!(
            De105Key.map_keycode(KeyCode::NumpadLock, &m, hc),
            DecodedKey::RawKey(KeyCode::NumpadLock)
        );
        assert_eq!(
            AnyLayout::FiSe105Key(FiSe105Key).map_keycode(KeyCode::NumpadLock, &m, hc),
            DecodedKey::RawKey(KeyCode::NumpadLock)
        );
    }
}
