// Demonstrates near-miss n3: pressing Num Lock while a Ctrl key is held.
// Original behaviour: it is an ordinary Num Lock press - reported as the raw Num Lock key,
// and the NumLock modifier flips. Passes on the original tree.
use pc_keyboard::layouts::Us104Key;
use pc_keyboard::{
    DecodedKey, HandleControl, KeyCode, KeyEvent, KeyState, Keyboard, ScancodeSet2,
};

#[test]
fn ctrl_numlock_toggles_numlock() {
    let mut kb = Keyboard::new(ScancodeSet2::new(), Us104Key, HandleControl::Ignore);
    assert!(kb.get_modifiers().numlock);
    assert_eq!(
        kb.process_keyevent(KeyEvent::new(KeyCode::LControl, KeyState::Down)),
        Some(DecodedKey::RawKey(KeyCode::LControl))
    );
    assert_eq!(
        kb.process_keyevent(KeyEvent::new(KeyCode::NumpadLock, KeyState::Down)),
        Some(DecodedKey::RawKey(KeyCode::NumpadLock))
    );
    assert_eq!(
        kb.process_keyevent(KeyEvent::new(KeyCode::NumpadLock, KeyState::Up)),
        None
    );
    assert_eq!(
        kb.process_keyevent(KeyEvent::new(KeyCode::LControl, KeyState::Up)),
        None
    );
    assert!(!kb.get_modifiers().numlock);
    // and so the numpad now navigates
    assert_eq!(
        kb.process_keyevent(KeyEvent::new(KeyCode::Numpad7, KeyState::Down)),
        Some(DecodedKey::RawKey(KeyCode::Home))
    );
}
