// Demonstrates the behaviour change of near-miss n1 (public API only).
// Baseline: Numpad8 with NumLock off decodes to RawKey(ArrowUp) on the US table
// (and on every layout that delegates its numpad to it).
use pc_keyboard::layouts::{Uk105Key, Us104Key};
use pc_keyboard::{
    DecodedKey, EventDecoder, HandleControl, KeyCode, KeyEvent, KeyState, KeyboardLayout, Modifiers,
};

#[test]
fn numpad8_numlock_off_is_arrow_up_map_keycode() {
    let m = Modifiers {
        numlock: false,
        ..Default::default()
    };
    assert_eq!(
        Us104Key.map_keycode(KeyCode::Numpad8, &m, HandleControl::Ignore),
        DecodedKey::RawKey(KeyCode::ArrowUp)
    );
}

#[test]
fn numpad8_numlock_off_is_arrow_up_event_decoder() {
    let mut d = EventDecoder::new(Uk105Key, HandleControl::MapLettersToUnicode);
    // NumLock starts on
    assert_eq!(
        d.process_keyevent(KeyEvent::new(KeyCode::Numpad8, KeyState::Down)),
        Some(DecodedKey::Unicode('8'))
    );
    assert_eq!(
        d.process_keyevent(KeyEvent::new(KeyCode::NumpadLock, KeyState::Down)),
        Some(DecodedKey::RawKey(KeyCode::NumpadLock))
    );
    assert_eq!(
        d.process_keyevent(KeyEvent::new(KeyCode::Numpad8, KeyState::Down)),
        Some(DecodedKey::RawKey(KeyCode::ArrowUp))
    );
}
