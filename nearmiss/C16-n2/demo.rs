// Demonstrates the behaviour change of near-miss n2 (public API only).
// Baseline: with NumLock off the numpad digit keys decode to their navigation
// alias whether or not Shift is held.
use pc_keyboard::layouts::{AnyLayout, Us104Key};
use pc_keyboard::{
    DecodedKey, EventDecoder, HandleControl, KeyCode, KeyEvent, KeyState, KeyboardLayout, Modifiers,
};

#[test]
fn shift_does_not_affect_numpad_navigation_map_keycode() {
    let m = Modifiers {
        numlock: false,
        rshift: true,
        ..Default::default()
    };
    let expect = [
        (KeyCode::Numpad7, KeyCode::Home),
        (KeyCode::Numpad8, KeyCode::ArrowUp),
        (KeyCode::Numpad9, KeyCode::PageUp),
        (KeyCode::Numpad4, KeyCode::ArrowLeft),
        (KeyCode::Numpad6, KeyCode::ArrowRight),
        (KeyCode::Numpad1, KeyCode::End),
        (KeyCode::Numpad2, KeyCode::ArrowDown),
        (KeyCode::Numpad3, KeyCode::PageDown),
        (KeyCode::Numpad0, KeyCode::Insert),
    ];
    for (k, alias) in expect {
        assert_eq!(
            Us104Key.map_keycode(k, &m, HandleControl::Ignore),
            DecodedKey::RawKey(alias),
            "{:?}",
            k
        );
    }
}

#[test]
fn shift_does_not_affect_numpad_navigation_event_decoder() {
    let mut d = EventDecoder::new(
        AnyLayout::Us104Key(Us104Key),
        HandleControl::MapLettersToUnicode,
    );
    assert_eq!(
        d.process_keyevent(KeyEvent::new(KeyCode::NumpadLock, KeyState::Down)),
        Some(DecodedKey::RawKey(KeyCode::NumpadLock))
    );
    assert_eq!(
        d.process_keyevent(KeyEvent::new(KeyCode::LShift, KeyState::Down)),
        Some(DecodedKey::RawKey(KeyCode::LShift))
    );
    assert_eq!(
        d.process_keyevent(KeyEvent::new(KeyCode::Numpad7, KeyState::Down)),
        Some(DecodedKey::RawKey(KeyCode::Home))
    );
}
