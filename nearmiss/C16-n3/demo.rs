// Demonstrates the behaviour change of near-miss n3 (public API only).
// Baseline: on the Azerty layout Numpad5 types '5' whatever the NumLock state.
use pc_keyboard::layouts::{AnyLayout, Azerty};
use pc_keyboard::{
    DecodedKey, EventDecoder, HandleControl, KeyCode, KeyEvent, KeyState, KeyboardLayout, Modifiers,
};

#[test]
fn azerty_numpad5_is_five_with_numlock_off_map_keycode() {
    let m = Modifiers {
        numlock: false,
        ..Default::default()
    };
    assert_eq!(
        Azerty.map_keycode(KeyCode::Numpad5, &m, HandleControl::MapLettersToUnicode),
        DecodedKey::Unicode('5')
    );
    let any = AnyLayout::Azerty(Azerty);
    assert_eq!(
        (&any).map_keycode(KeyCode::Numpad5, &m, HandleControl::Ignore),
        DecodedKey::Unicode('5')
    );
}

#[test]
fn azerty_numpad5_is_five_with_numlock_off_event_decoder() {
    let mut d = EventDecoder::new(Azerty, HandleControl::Ignore);
    assert_eq!(
        d.process_keyevent(KeyEvent::new(KeyCode::Numpad5, KeyState::Down)),
        Some(DecodedKey::Unicode('5'))
    );
    assert_eq!(
        d.process_keyevent(KeyEvent::new(KeyCode::NumpadLock, KeyState::Down)),
        Some(DecodedKey::RawKey(KeyCode::NumpadLock))
    );
    assert_eq!(
        d.process_keyevent(KeyEvent::new(KeyCode::Numpad5, KeyState::Down)),
        Some(DecodedKey::Unicode('5'))
    );
}
