// Passes on the original tree, fails with n1/patch.diff applied.
use pc_keyboard::layouts::{AnyLayout, Uk105Key};
use pc_keyboard::{DecodedKey, HandleControl, KeyCode, KeyboardLayout, Modifiers};

#[test]
fn uk_altgr_backtick_is_pipe() {
    let m = Modifiers {
        ralt: true,
        numlock: true,
        ..Modifiers::default()
    };
    let wrapped = AnyLayout::Uk105Key(Uk105Key);
    for h in [HandleControl::Ignore, HandleControl::MapLettersToUnicode] {
        // bare layout, wrapper by value, wrapper by reference: all three move together
        assert_eq!(Uk105Key.map_keycode(KeyCode::Oem8, &m, h), DecodedKey::Unicode('|'));
        assert_eq!(wrapped.map_keycode(KeyCode::Oem8, &m, h), DecodedKey::Unicode('|'));
        assert_eq!((&wrapped).map_keycode(KeyCode::Oem8, &m, h), DecodedKey::Unicode('|'));
    }
}
