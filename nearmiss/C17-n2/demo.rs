// Passes on the original tree, fails with n2/patch.diff applied.
use pc_keyboard::layouts::{AnyLayout, De105Key, Uk105Key, Us104Key};
use pc_keyboard::{DecodedKey, HandleControl, KeyCode, KeyboardLayout, Modifiers};

#[test]
fn numpad5_is_a_digit_even_without_numlock() {
    let m = Modifiers::default(); // numlock off
    let h = HandleControl::Ignore;
    let five = DecodedKey::Unicode('5');
    assert_eq!(Us104Key.map_keycode(KeyCode::Numpad5, &m, h), five);
    // layouts that fall back to Us104Key, seen through the wrapper
    assert_eq!(AnyLayout::Us104Key(Us104Key).map_keycode(KeyCode::Numpad5, &m, h), five);
    assert_eq!(AnyLayout::Uk105Key(Uk105Key).map_keycode(KeyCode::Numpad5, &m, h), five);
    let de = AnyLayout::De105Key(De105Key);
    assert_eq!((&de).map_keycode(KeyCode::Numpad5, &m, h), five);
}
