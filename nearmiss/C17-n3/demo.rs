// Passes on the original tree, fails with n3/patch.diff applied.
use pc_keyboard::layouts::{AnyLayout, Azerty, Uk105Key};
use pc_keyboard::{DecodedKey, EventDecoder, HandleControl, KeyCode, KeyEvent, KeyState};

#[test]
fn held_shift_survives_a_layout_switch() {
    let mut d = EventDecoder::new(AnyLayout::Uk105Key(Uk105Key), HandleControl::Ignore);
    assert_eq!(
        d.process_keyevent(KeyEvent::new(KeyCode::LShift, KeyState::Down)),
        Some(DecodedKey::RawKey(KeyCode::LShift))
    );
    assert_eq!(
        d.process_keyevent(KeyEvent::new(KeyCode::Q, KeyState::Down)),
        Some(DecodedKey::Unicode('Q'))
    );
    d.change_layout(AnyLayout::Azerty(Azerty));
    // Shift is still physically held: original code gives the shifted Azerty 'A'.
    assert_eq!(
        d.process_keyevent(KeyEvent::new(KeyCode::Q, KeyState::Down)),
        Some(DecodedKey::Unicode('A'))
    );
}
