// Behaviour change of near-miss n1: which error is reported for a frame that has
// BOTH a bad stop bit and a bad parity bit. Unpatched: BadStopBit. Patched: ParityError.
use pc_keyboard::{layouts, Error, HandleControl, Keyboard, Ps2Decoder, ScancodeSet2};

// data 0x01 (odd number of ones -> parity bit must be 0), parity bit wrongly 1, stop bit 0
const WORD: u16 = (0x01 << 1) | (1 << 9);

#[test]
fn bad_stop_and_bad_parity_word() {
    let mut k = Keyboard::new(
        ScancodeSet2::new(),
        layouts::Us104Key,
        HandleControl::MapLettersToUnicode,
    );
    assert_eq!(k.add_word(WORD), Err(Error::BadStopBit));
    assert_eq!(Ps2Decoder::new().add_word(WORD), Err(Error::BadStopBit));
}

#[test]
fn bad_stop_and_bad_parity_bits() {
    let mut k = Keyboard::new(
        ScancodeSet2::new(),
        layouts::Us104Key,
        HandleControl::MapLettersToUnicode,
    );
    for i in 0..10 {
        assert_eq!(k.add_bit((WORD >> i) & 1 != 0), Ok(None));
    }
    assert_eq!(k.add_bit(false), Err(Error::BadStopBit));
}
