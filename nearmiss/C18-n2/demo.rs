// Behaviour change of near-miss n2: a bad start bit (first bit of a frame is 1) is
// reported by add_bit immediately and the decoder stays at the frame boundary.
// Unpatched: the bit is swallowed (Ok(None)) and BadStartBit only comes with the 11th bit.
use pc_keyboard::{layouts, Error, HandleControl, KeyCode, KeyEvent, KeyState, Keyboard, Ps2Decoder, ScancodeSet2};

fn kb() -> Keyboard<layouts::Us104Key, ScancodeSet2> {
    Keyboard::new(
        ScancodeSet2::new(),
        layouts::Us104Key,
        HandleControl::MapLettersToUnicode,
    )
}

#[test]
fn leading_one_is_swallowed() {
    let mut k = kb();
    assert_eq!(k.add_bit(true), Ok(None));
    assert_eq!(Ps2Decoder::new().add_bit(true), Ok(None));
}

#[test]
fn bad_start_reported_on_eleventh_bit() {
    let mut k = kb();
    // 1 followed by ten more bits: the error arrives with bit 11
    assert_eq!(k.add_bit(true), Ok(None));
    for _ in 0..9 {
        assert_eq!(k.add_bit(false), Ok(None));
    }
    assert_eq!(k.add_bit(true), Err(Error::BadStartBit));
}

#[test]
fn idle_high_bit_misaligns_following_frame() {
    let mut k = kb();
    let _ = k.add_bit(true); // stray idle-high bit
    // well-formed frame for 0x01 (F9): start 0, data 1000_0000 (LSB first), parity 0, stop 1
    let frame = [false, true, false, false, false, false, false, false, false, false, true];
    let mut last = Ok(None);
    for b in frame {
        last = k.add_bit(b);
    }
    // unpatched: the frame is misaligned, so F9 is NOT what comes out of its last bit
    assert_ne!(last, Ok(Some(KeyEvent::new(KeyCode::F9, KeyState::Down))));
}
