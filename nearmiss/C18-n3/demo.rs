// Behaviour change of near-miss n3: set_ctrl_handling() that really changes the mapping
// also releases the lctrl/rctrl modifiers. Unpatched: modifiers are left alone.
use pc_keyboard::{
    layouts, DecodedKey, EventDecoder, HandleControl, KeyCode, KeyEvent, KeyState, Keyboard,
    ScancodeSet2,
};

#[test]
fn ctrl_survives_mapping_switch_keyboard() {
    let mut k = Keyboard::new(ScancodeSet2::new(), layouts::Us104Key, HandleControl::Ignore);
    k.process_keyevent(KeyEvent::new(KeyCode::LControl, KeyState::Down));
    k.process_keyevent(KeyEvent::new(KeyCode::RControl, KeyState::Down));
    assert!(k.get_modifiers().lctrl && k.get_modifiers().rctrl);
    k.set_ctrl_handling(HandleControl::MapLettersToUnicode);
    assert_eq!(k.get_ctrl_handling(), HandleControl::MapLettersToUnicode);
    // unpatched: Ctrl is still held, so 'A' now maps to U+0001
    assert!(k.get_modifiers().lctrl);
    assert!(k.get_modifiers().rctrl);
    assert_eq!(
        k.process_keyevent(KeyEvent::new(KeyCode::A, KeyState::Down)),
        Some(DecodedKey::Unicode('\u{0001}'))
    );
}

#[test]
fn ctrl_survives_mapping_switch_event_decoder() {
    let mut e = EventDecoder::new(layouts::Us104Key, HandleControl::Ignore);
    e.process_keyevent(KeyEvent::new(KeyCode::RControl, KeyState::Down));
    e.set_ctrl_handling(HandleControl::MapLettersToUnicode);
    assert_eq!(
        e.process_keyevent(KeyEvent::new(KeyCode::C, KeyState::Down)),
        Some(DecodedKey::Unicode('\u{0003}'))
    );
}
