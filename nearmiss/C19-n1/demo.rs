// Set 2: the "break forms" of the two one-shot status codes (F0 00 and F0 AA).
// Unpatched crate: they decode as Up events for TooManyKeys / PowerOnTestOk.
use pc_keyboard::{KeyCode, KeyEvent, KeyState, ScancodeSet, ScancodeSet2};

#[test]
fn release_prefixed_status_codes_decode_as_up_events() {
    let mut s = ScancodeSet2::new();
    assert_eq!(s.advance_state(0xF0), Ok(None));
    assert_eq!(
        s.advance_state(0x00),
        Ok(Some(KeyEvent::new(KeyCode::TooManyKeys, KeyState::Up)))
    );
    assert_eq!(s.advance_state(0xF0), Ok(None));
    assert_eq!(
        s.advance_state(0xAA),
        Ok(Some(KeyEvent::new(KeyCode::PowerOnTestOk, KeyState::Up)))
    );
    // decoder is back in the start state either way
    assert_eq!(
        s.advance_state(0x1C),
        Ok(Some(KeyEvent::new(KeyCode::A, KeyState::Down)))
    );
}
