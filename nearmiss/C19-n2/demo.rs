// Ctrl+Pause ("Break") scancodes: E0 46 / E0 C6 in set 1, E0 7E / E0 F0 7E in set 2.
// Unpatched crate: these codes are not in the tables and are rejected.
use pc_keyboard::{Error, ScancodeSet, ScancodeSet1, ScancodeSet2};

#[test]
fn ctrl_break_codes_are_unknown() {
    let mut s1 = ScancodeSet1::new();
    assert_eq!(s1.advance_state(0xE0), Ok(None));
    assert_eq!(s1.advance_state(0x46), Err(Error::UnknownKeyCode));
    assert_eq!(s1.advance_state(0xE0), Ok(None));
    assert_eq!(s1.advance_state(0xC6), Err(Error::UnknownKeyCode));

    let mut s2 = ScancodeSet2::new();
    assert_eq!(s2.advance_state(0xE0), Ok(None));
    assert_eq!(s2.advance_state(0x7E), Err(Error::UnknownKeyCode));
    assert_eq!(s2.advance_state(0xE0), Ok(None));
    assert_eq!(s2.advance_state(0xF0), Ok(None));
    assert_eq!(s2.advance_state(0x7E), Err(Error::UnknownKeyCode));
}
