// Set 1: the status byte 0xFF (key detection error / buffer overrun).
// Unpatched crate: 0xFF is treated as the break code of the unassigned make code 0x7F
// and is rejected with UnknownKeyCode.
use pc_keyboard::{
    layouts, Error, HandleControl, KeyCode, KeyEvent, KeyState, Keyboard, ScancodeSet,
    ScancodeSet1,
};

#[test]
fn set1_ff_is_unknown() {
    let mut s = ScancodeSet1::new();
    assert_eq!(s.advance_state(0xFF), Err(Error::UnknownKeyCode));
    // decoder still in the start state
    assert_eq!(
        s.advance_state(0x1E),
        Ok(Some(KeyEvent::new(KeyCode::A, KeyState::Down)))
    );

    let mut k = Keyboard::new(
        ScancodeSet1::new(),
        layouts::Us104Key,
        HandleControl::MapLettersToUnicode,
    );
    assert_eq!(k.add_byte(0xFF), Err(Error::UnknownKeyCode));
}
