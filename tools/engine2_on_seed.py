#!/usr/bin/env python3
"""Run only the second engine (MIR->SMT) against seeded changes: tools/engine2_on_seed.py <seed-dir>..."""
import json, os, shutil, subprocess, sys
sys.path.insert(0, os.path.dirname(os.path.dirname(os.path.abspath(__file__))))
from vlib import mirprops
for seed in sys.argv[1:]:
    seed = os.path.abspath(seed)
    name = "_".join(seed.strip("/").split("/")[-2:])
    wt = "/tmp/e2/" + name
    subprocess.run(["git", "-C", "/repo", "worktree", "remove", "--force", wt], capture_output=True)
    shutil.rmtree(wt, ignore_errors=True)
    os.makedirs("/tmp/e2", exist_ok=True)
    subprocess.run(["git", "-C", "/repo", "worktree", "add", "--detach", wt, "HEAD"], capture_output=True)
    r = subprocess.run(["git", "apply", seed + "/patch.diff"], cwd=wt, capture_output=True, text=True)
    pid = json.load(open(seed + "/meta.json"))["property"]
    pids = sys.argv and [pid]
    out = {}
    for p in pids:
        res = mirprops.run(wt, "/tmp/e2/" + name + "-w", p, "first")
        bad = [q["name"] for q in res.get("queries", []) if "sat" in q["answers"].values()]
        out[p] = (res.get("verdict") if res.get("applicable") else "n/a: " + res.get("reason", "")[:120], bad[:3])
    print(name, out, flush=True)
    subprocess.run(["git", "-C", "/repo", "worktree", "remove", "--force", wt], capture_output=True)
    shutil.rmtree(wt, ignore_errors=True); shutil.rmtree("/tmp/e2/" + name + "-w", ignore_errors=True)
