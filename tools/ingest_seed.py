#!/usr/bin/env python3
"""Ingest a sub-agent's deliverable into /verif/seeded/<id>/ and confirm it.

  tools/ingest_seed.py <out-dir> <seed-id> <round> [--props own|all|C01,..]

<out-dir> holds patch.diff, demo.rs, notes.txt as written by the sub-agent.  They are copied to
/verif/seeded/<seed-id>/, tools/seedtest.py is run on it (scratch worktree of /repo HEAD under
/tmp/seedtest: repo tests with the patch, with and without the hook feature; demo fails with / passes
without the patch; then the selected checks against that tree), and meta.json is written from what
was observed.  A seed that does not confirm (tests red, demo not failing, demo failing without the
patch) is removed again and reported.
"""
import json, os, shutil, subprocess, sys

VERIF = os.path.dirname(os.path.dirname(os.path.abspath(__file__)))


def main():
    out, sid, rnd = sys.argv[1], sys.argv[2], int(sys.argv[3])
    props = "own"
    if "--props" in sys.argv:
        props = sys.argv[sys.argv.index("--props") + 1]
    prop = sid.split("-")[0]
    dst = os.path.join(VERIF, "seeded", sid)
    os.makedirs(dst, exist_ok=True)
    for f in ("patch.diff", "demo.rs", "notes.txt"):
        if os.path.exists(os.path.join(out, f)):
            shutil.copy(os.path.join(out, f), os.path.join(dst, f))
    notes = open(os.path.join(dst, "notes.txt")).read().strip() if os.path.exists(os.path.join(dst, "notes.txt")) else ""
    json.dump({"id": sid, "round": rnd, "property": prop}, open(os.path.join(dst, "meta.json"), "w"))
    p = subprocess.run([sys.executable, os.path.join(VERIF, "tools", "seedtest.py"), dst, "--props", props, "--jobs", "4"],
                       stdout=subprocess.PIPE, text=True)
    r = json.loads([l for l in p.stdout.splitlines() if l.startswith("{")][-1])
    ok = r.get("tests_pass") and r.get("tests_pass_hooks") and r.get("demo_fails_with_patch") and r.get("demo_passes_without_patch")
    if not ok:
        shutil.rmtree(dst)
        print(json.dumps({"id": sid, "kept": False, "why": {k: r.get(k) for k in ("error", "tests_pass", "tests_pass_hooks", "demo_fails_with_patch", "demo_passes_without_patch")}}))
        return 1
    files = sorted({l.split(" b/")[1].strip() for l in open(os.path.join(dst, "patch.diff")) if l.startswith("diff --git")})
    head = subprocess.run(["git", "-C", VERIF, "rev-parse", "--short", "HEAD"], stdout=subprocess.PIPE, text=True).stdout.strip()
    meta = {
        "id": sid, "round": rnd, "property": prop,
        "breaks": notes,
        "needs_to_manifest": "see notes.txt (the sub-agent's own statement of what the change needs in order to show) and demo.rs",
        "files_changed": files,
        "written_by": "independent sub-agent given only the property text, one-line summaries of the nine earlier ideas to avoid, and a scratch worktree of /repo under /tmp; nothing from /verif",
        "confirmed": {
            "applies_to_repo_head": True,
            "repo_tests_pass_with_patch": r["tests_pass"],
            "repo_tests_pass_with_patch_and_hooks": r["tests_pass_hooks"],
            "demo_fails_with_patch": r["demo_fails_with_patch"],
            "demo_passes_without_patch": r["demo_passes_without_patch"],
            "how": "tools/ingest_seed.py -> tools/seedtest.py (scratch worktree of /repo HEAD, removed afterwards)",
        },
        "checks_run": {pid: {"exit": c["exit"], "violation_lines": c["violations"], "wall_s": c["wall_s"], "first_findings": c["detail"][:4]}
                       for pid, c in r["checks"].items()},
        "second_engine": r.get("second_engine", {}),
        "detected_by": r["detected_by"],
        "inconclusive": r.get("inconclusive", []),
        "verif_commit": head,
    }
    json.dump(meta, open(os.path.join(dst, "meta.json"), "w"), indent=1)
    print(json.dumps({"id": sid, "kept": True, "detected_by": r["detected_by"], "inconclusive": r.get("inconclusive"),
                      "checks": {k: (v["exit"], v["wall_s"]) for k, v in r["checks"].items()}}))
    return 0


if __name__ == "__main__":
    sys.exit(main())
