#!/usr/bin/env python3
"""Print the DESIGN.md table rows for the round-4 seeds from their meta.json files."""
import glob, json, os
V = os.path.dirname(os.path.dirname(os.path.abspath(__file__)))
rows = []
for f in sorted(glob.glob(os.path.join(V, "seeded", "*-r4m*", "meta.json"))):
    m = json.load(open(f))
    if "breaks" not in m:
        continue
    what = " ".join(m["breaks"].split())[:230].replace("|", "/")
    first = ""
    for c in m["checks_run"].get(m["property"], {}).get("first_findings", []):
        if c.startswith("harness "):
            first = c.split(" FAILED")[0].split(":")[0].replace("harness ", "")
            break
    by = ", ".join(m["detected_by"]) or "**missed**"
    rows.append(f"| `{m['id']}` | {what} | {by} ({m['checks_run'][m['property']]['wall_s']} s; first failing harness `{first}`) |")
print("| seed | what it changes (the sub-agent's own note) | reported by (quick tier) |\n|---|---|---|")
print("\n".join(rows))
