#!/usr/bin/env python3
import sys,json
for l in sys.stdin:
    try: r=json.loads(l)
    except Exception: print(l.rstrip()); continue
    print(r['name'], 'tests',r.get('tests_pass'),r.get('tests_pass_hooks'),'demo',r.get('demo_fails_with_patch'),r.get('demo_passes_without_patch'),'DETECTED' if r.get('detected_by') else 'MISSED',r.get('detected_by'),'inconcl',r.get('inconclusive'), r.get('error') or '')
    for p,c in r.get('checks',{}).items(): print('   ',p,c['exit'],c['wall_s'],[d[:220] for d in c['detail'][:3]])
