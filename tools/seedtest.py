#!/usr/bin/env python3
"""Self-test of the checks against property-breaking changes.

  tools/seedtest.py <seed-dir>... [--props C01,C02|all] [--tier quick] [--jobs N] [--keep]

Each <seed-dir> holds patch.diff (+ optional demo.rs, meta.json).  For each, a scratch worktree of
/repo's HEAD is created under /tmp/seedtest, the patch applied, the repository's own tests run
(must stay green), the demo run (must fail), then the selected checks are run against that tree
(VERIF_REPO/VERIF_BUILD point the driver at it; nothing in /repo or /verif/evidence is touched).
The scratch tree and its build output are removed afterwards.  Output: one JSON line per seed.
"""
import argparse, json, os, shutil, subprocess, sys, time
from concurrent.futures import ThreadPoolExecutor

VERIF = os.path.dirname(os.path.dirname(os.path.abspath(__file__)))
ROOT = "/tmp/seedtest"


def sh(cmd, cwd=None, env=None, timeout=7200):
    p = subprocess.run(cmd, cwd=cwd, env=env, stdout=subprocess.PIPE, stderr=subprocess.STDOUT, text=True, timeout=timeout)
    return p.returncode, p.stdout


def one(seed, props, tier, jobs, keep):
    seed = os.path.abspath(seed)
    name = "_".join(seed.strip("/").split("/")[-2:])
    wt = os.path.join(ROOT, name)
    bd = os.path.join(ROOT, name + "-build")
    res = {"seed": seed, "name": name}
    env = dict(os.environ, CARGO_NET_OFFLINE="true", CARGO_TARGET_DIR=os.path.join(wt, "target"))
    try:
        sh(["git", "-C", "/repo", "worktree", "remove", "--force", wt])
        shutil.rmtree(wt, ignore_errors=True); shutil.rmtree(bd, ignore_errors=True)
        rc, out = sh(["git", "-C", "/repo", "worktree", "add", "--detach", wt, "HEAD"])
        if rc: res["error"] = "worktree: " + out[-300:]; return res
        rc, out = sh(["git", "apply", os.path.join(seed, "patch.diff")], cwd=wt)
        if rc: res["error"] = "patch does not apply: " + out[-300:]; return res
        rc, out = sh(["cargo", "test", "--offline"], cwd=wt, env=env)
        res["tests_pass"] = (rc == 0 and "32 passed" in out)
        rc2, out2 = sh(["cargo", "test", "--offline", "--features", "verif-hooks"], cwd=wt, env=env)
        res["tests_pass_hooks"] = (rc2 == 0 and "32 passed" in out2)
        demo = os.path.join(seed, "demo.rs")
        if os.path.exists(demo):
            os.makedirs(os.path.join(wt, "tests"), exist_ok=True)
            shutil.copy(demo, os.path.join(wt, "tests", "demo.rs"))
            rc, out = sh(["cargo", "test", "--offline", "--test", "demo"], cwd=wt, env=env)
            res["demo_fails_with_patch"] = rc != 0 and "error[" not in out
            sh(["git", "apply", "-R", os.path.join(seed, "patch.diff")], cwd=wt)
            rc, out = sh(["cargo", "test", "--offline", "--test", "demo"], cwd=wt, env=env)
            res["demo_passes_without_patch"] = rc == 0
            sh(["git", "apply", os.path.join(seed, "patch.diff")], cwd=wt)
            shutil.rmtree(os.path.join(wt, "tests"), ignore_errors=True)
        venv = dict(os.environ, VERIF_REPO=wt, VERIF_BUILD=bd, VERIF_JOBS=str(jobs), VERIF_NO_KISSAT="1")
        res["checks"] = {}
        for pid in props:
            t0 = time.time()
            rc, out = sh([os.path.join(VERIF, "verify"), "check", pid, "--tier", tier], cwd=VERIF, env=venv)
            viol = [l for l in out.splitlines() if l.startswith("VIOLATION")]
            why = [l for l in out.splitlines() if l.startswith("harness ") or l.startswith("INCONCLUSIVE") or l.startswith("  C") or l.startswith("second engine")]
            se = [l for l in out.splitlines() if l.startswith("second engine")]
            res.setdefault("second_engine", {})[pid] = (se[0].split(":")[1].split(",")[0].strip() if se else None)
            res["checks"][pid] = {"exit": rc, "violations": len(viol), "wall_s": round(time.time() - t0, 1), "detail": [w[:400] for w in why[:6]]}
        res["detected_by"] = sorted(p for p, r in res["checks"].items() if r["exit"] == 1)
        res["inconclusive"] = sorted(p for p, r in res["checks"].items() if r["exit"] not in (0, 1))
    finally:
        if not keep:
            sh(["git", "-C", "/repo", "worktree", "remove", "--force", wt])
            shutil.rmtree(wt, ignore_errors=True); shutil.rmtree(bd, ignore_errors=True)
    return res


def main():
    ap = argparse.ArgumentParser()
    ap.add_argument("seeds", nargs="+")
    ap.add_argument("--props", default="own")
    ap.add_argument("--tier", default="quick")
    ap.add_argument("--jobs", type=int, default=4)
    ap.add_argument("--parallel", type=int, default=4)
    ap.add_argument("--keep", action="store_true")
    a = ap.parse_args()
    os.makedirs(ROOT, exist_ok=True)
    sys.path.insert(0, VERIF)
    from vlib import props as P
    allp = sorted(P.P)

    def plist(seed):
        if a.props == "all":
            return allp
        if a.props == "own":
            try:
                return [json.load(open(os.path.join(seed, "meta.json")))["property"]]
            except Exception:
                return allp
        return a.props.split(",")
    with ThreadPoolExecutor(a.parallel) as ex:
        for r in ex.map(lambda s: one(s, plist(s), a.tier, a.jobs, a.keep), a.seeds):
            print(json.dumps(r), flush=True)


if __name__ == "__main__":
    main()
