"""Generators: everything the harness crate needs that is derived from /repo's *current* sources and
the committed oracles.  Re-run on every check; files are only rewritten when their content changes so
cargo's fingerprints stay valid."""
import json
import os
import re

REPO = os.environ.get("VERIF_REPO", "/repo")
VERIF = os.path.dirname(os.path.dirname(os.path.abspath(__file__)))

LAYOUTS = [  # (short name used in harness names, type name)
    ("us104", "Us104Key"), ("uk105", "Uk105Key"), ("de105", "De105Key"), ("azerty", "Azerty"),
    ("no105", "No105Key"), ("fise105", "FiSe105Key"), ("jis109", "Jis109Key"), ("colemak", "Colemak"),
    ("dvorak104", "Dvorak104Key"), ("dvp104", "DVP104Key"),
]


def write_if_changed(path, content):
    try:
        with open(path) as f:
            if f.read() == content:
                return False
    except FileNotFoundError:
        pass
    os.makedirs(os.path.dirname(path), exist_ok=True)
    tmp = path + ".tmp%d" % os.getpid()
    with open(tmp, "w") as f:
        f.write(content)
    os.replace(tmp, path)
    return True


def parse_keycodes(repo=None):
    """Variant names of `pub enum KeyCode { .. }` in src/lib.rs, in declaration order."""
    src = open(os.path.join(repo or REPO, "src/lib.rs")).read()
    m = re.search(r"pub enum KeyCode\s*\{(.*?)\n\}", src, re.S)
    if not m:
        raise RuntimeError("cannot find `pub enum KeyCode` in src/lib.rs")
    body = re.sub(r"//[^\n]*", "", m.group(1))
    body = re.sub(r"#\[[^\]]*\]", "", body)
    names = []
    for part in body.split(","):
        part = part.strip()
        if not part:
            continue
        mm = re.match(r"^([A-Za-z_][A-Za-z0-9_]*)\s*(=\s*[^,]+)?$", part)
        if not mm:
            raise RuntimeError("unexpected KeyCode variant syntax: %r" % part)
        names.append(mm.group(1))
    return names


def rust_char(c):
    return "'\\u{%X}'" % ord(c)


def gen_keys(keys):
    out = ["// @generated from /repo/src/lib.rs (pub enum KeyCode) - do not edit",
           "use pc_keyboard::KeyCode;",
           "pub const N_KEYS: usize = %d;" % len(keys),
           "pub const ALL_KEYS: [KeyCode; N_KEYS] = ["]
    out += ["    KeyCode::%s," % k for k in keys]
    out += ["];",
            "/// Wildcard-free: fails to compile if the generator and the enum disagree.",
            "pub fn key_index(k: KeyCode) -> usize {", "    match k {"]
    out += ["        KeyCode::%s => %d," % (k, i) for i, k in enumerate(keys)]
    out += ["    }", "}",
            "pub fn key_name(k: KeyCode) -> &'static str {", "    match k {"]
    out += ["        KeyCode::%s => \"%s\"," % (k, k) for k in keys]
    out += ["    }", "}", ""]
    return "\n".join(out)


def gen_oracle(keys):
    sc = json.load(open(os.path.join(VERIF, "oracle/scancodes.json")))
    xl = json.load(open(os.path.join(VERIF, "oracle/i8042_xlat.json")))
    lay = json.load(open(os.path.join(VERIF, "oracle/layouts.json")))
    keyset = set(keys)
    out = ["// @generated from /verif/oracle/*.json - do not edit",
           "#![allow(clippy::all)]",
           "use pc_keyboard::KeyCode;", ""]
    # --- scancode tables
    tabs = {("set1", ""): {}, ("set1", "E0"): {}, ("set1", "E1"): {},
            ("set2", ""): {}, ("set2", "E0"): {}, ("set2", "E1"): {}}
    missing = []
    for row in sc["keys"]:
        if row["key"] not in keyset:
            missing.append(row["key"])
            continue
        for s in ("set1", "set2"):
            if row.get(s) is None:
                continue
            pre, code = row[s]
            t = tabs[(s, pre)]
            if code in t:
                raise RuntimeError("oracle: duplicate %s %s %02x" % (s, pre, code))
            t[code] = row["key"]
    for (s, pre), t in sorted(tabs.items()):
        fname = "ref_%s_%s" % (s, {"": "plain", "E0": "e0", "E1": "e1"}[pre])
        out.append("/// Reference table: %s codes in prefix context %r -> key (None = undefined code)." % (s, pre or "none"))
        out.append("pub fn %s(code: u8) -> Option<KeyCode> {" % fname)
        out.append("    match code {")
        for code in sorted(t):
            out.append("        0x%02X => Some(KeyCode::%s)," % (code, t[code]))
        out.append("        _ => None,")
        out.append("    }")
        out.append("}")
        out.append("pub const %s_LEN: usize = %d;" % (fname.upper(), len(t)))
    out.append("pub const ORACLE_KEYS_MISSING_FROM_ENUM: usize = %d;" % len(missing))
    for sname in ("set1", "set2"):
        out.append("/// Reference: the (prefix class 0 none / 1 E0 / 2 E1, make code) of a key in %s." % sname)
        out.append("pub fn ref_%s_seq(k: KeyCode) -> Option<(u8, u8)> {" % sname)
        out.append("    match k {")
        for row in sc["keys"]:
            if row["key"] in keyset and row.get(sname) is not None:
                pre, code = row[sname]
                out.append("        KeyCode::%s => Some((%d, 0x%02X))," % (row["key"], {"": 0, "E0": 1, "E1": 2}[pre], code))
        out.append("        _ => None,")
        out.append("    }")
        out.append("}")
    # --- i8042 translation
    x = [0xFF] * 256
    for k, v in xl["xlat"].items():
        x[int(k, 16)] = int(v, 16)
    out.append("/// i8042 Set 2 -> Set 1 translation; 0xFF = no translation.")
    out.append("pub const XLAT: [u8; 256] = [")
    for i in range(0, 256, 16):
        out.append("    " + ", ".join("0x%02X" % v for v in x[i:i + 16]) + ",")
    out.append("];")
    # inverse: for each set-1 code < 0x80 the (at most 2) set-2 preimages
    inv = {}
    for c2, c1 in enumerate(x):
        if c1 != 0xFF:
            inv.setdefault(c1, []).append(c2)
    maxpre = max(len(v) for v in inv.values())
    out.append("pub const XLAT_MAX_PRE: usize = %d;" % maxpre)
    out.append("/// Inverse of XLAT: the Set 2 codes translating to a Set 1 code (0xFF padding).")
    out.append("pub const XLAT_INV: [[u8; XLAT_MAX_PRE]; 128] = [")
    for c1 in range(128):
        v = inv.get(c1, [])
        v = v + [0xFF] * (maxpre - len(v))
        out.append("    [" + ", ".join("0x%02X" % z for z in v) + "],")
    out.append("];")
    # --- layout character oracles
    out.append("/// Character oracle of one layout.")
    out.append("pub trait CharOracle {")
    out.append("    /// None = no expectation for (key, level); Some(ok) = whether `c` is acceptable.")
    out.append("    /// level: 0 = base, 1 = shift, 2 = altgr.")
    out.append("    fn ok(key: KeyCode, level: u8, c: char) -> Option<bool>;")
    out.append("    /// Does the standard print a lower-case letter on this key with its capital at shift?")
    out.append("    fn letter_cell(key: KeyCode) -> bool;")
    out.append("    /// First acceptable character of a cell (for sample printing).")
    out.append("    fn first(key: KeyCode, level: u8) -> Option<char>;")
    out.append("    const CELLS: usize;")
    out.append("}")
    out.append("pub mod chars {")
    out.append("    use super::CharOracle;")
    out.append("    use pc_keyboard::KeyCode;")

    def upper_of(c):
        u = ord(c)
        if 0x61 <= u <= 0x7A or (0xE0 <= u <= 0xFE and u != 0xF7):
            return chr(u - 0x20)
        return None
    for short, ty in LAYOUTS:
        cells = lay["layouts"][ty]
        out.append("    pub struct %s;" % ty)
        out.append("    impl CharOracle for %s {" % ty)
        out.append("        fn ok(key: KeyCode, level: u8, c: char) -> Option<bool> {")
        out.append("            match (key, level) {")
        n = 0
        letters = []
        firsts = []
        for key in sorted(cells):
            if key not in keyset:
                continue
            lv = cells[key]
            for lvl, chars in enumerate(lv):
                if not chars:
                    continue
                cond = " || ".join("c == %s" % rust_char(ch) for ch in chars)
                out.append("                (KeyCode::%s, %d) => Some(%s)," % (key, lvl, cond))
                firsts.append((key, lvl, chars[0]))
                n += 1
            if len(lv) >= 2 and any(upper_of(c) is not None and upper_of(c) in lv[1] for c in lv[0]):
                letters.append(key)
        out.append("                _ => None,")
        out.append("            }")
        out.append("        }")
        out.append("        fn letter_cell(key: KeyCode) -> bool {")
        out.append("            matches!(key, %s)" % " | ".join("KeyCode::%s" % k for k in letters))
        out.append("        }")
        out.append("        fn first(key: KeyCode, level: u8) -> Option<char> {")
        out.append("            match (key, level) {")
        for key, lvl, ch in firsts:
            out.append("                (KeyCode::%s, %d) => Some(%s)," % (key, lvl, rust_char(ch)))
        out.append("                _ => None,")
        out.append("            }")
        out.append("        }")
        out.append("        const CELLS: usize = %d;" % n)
        out.append("    }")
    out.append("}")
    out.append("")
    return "\n".join(out)


def load_known():
    p = os.path.join(VERIF, "known_findings.json")
    if not os.path.exists(p):
        return {"findings": []}
    return json.load(open(p))


def gen_known():
    """Open entries of known_findings.json as predicates used in kani::assume (fixed entries generate
    nothing, so a regression is reported like any other violation)."""
    kf = load_known()
    c02, c13f, c13b = [], [], []
    for f in kf.get("findings", []):
        if f.get("status") != "open":
            continue
        for inp in f.get("inputs", []):
            if inp["kind"] == "set1_transition":
                c02.append((inp["ctx"], inp["byte"]))
            elif inp["kind"] == "xlat_forward":
                c13f.append((inp["ctx"], inp["set2_code"]))
            elif inp["kind"] == "xlat_backward":
                c13b.append((inp["ctx"], inp["set1_code"]))
    out = ["// @generated from /verif/known_findings.json (open entries only) - do not edit", ""]

    def pred(name, doc, pairs):
        out.append("/// %s" % doc)
        out.append("pub fn %s(ctx: u8, code: u8) -> bool {" % name)
        if pairs:
            out.append("    matches!((ctx, code), %s)" % " | ".join("(%d, 0x%02X)" % p for p in sorted(set(pairs))))
        else:
            out.append("    let _ = (ctx, code);")
            out.append("    false")
        out.append("}")
        out.append("pub const %s_LEN: usize = %d;" % (name.upper(), len(set(pairs))))
    pred("known_set1_transition", "Set 1 (prefix context, byte) transitions listed as open known findings.", c02)
    pred("known_xlat_forward", "(prefix context, Set 2 code) pairs whose translated Set 1 sequence is an open known finding.", c13f)
    pred("known_xlat_backward", "(prefix context, Set 1 code<0x80) pairs whose Set 2 preimage is an open known finding.", c13b)
    out.append("")
    return "\n".join(out)


def generate(crate_dir):
    keys = parse_keycodes()
    ch = []
    ch.append(write_if_changed(os.path.join(crate_dir, "src/gen_keys.rs"), gen_keys(keys)))
    ch.append(write_if_changed(os.path.join(crate_dir, "src/gen_oracle.rs"), gen_oracle(keys)))
    ch.append(write_if_changed(os.path.join(crate_dir, "src/gen_known.rs"), gen_known()))
    return keys, any(ch)
