"""Writes /verif/MANIFEST.json from vlib/props.py (run: python3 -m vlib.manifest)."""
import json
import os
import subprocess
from . import props

VERIF = os.path.dirname(os.path.dirname(os.path.abspath(__file__)))


def hook_commits():
    try:
        out = subprocess.run(["git", "-C", "/repo", "log", "--format=%H %s"], stdout=subprocess.PIPE, text=True).stdout
        return [l.split()[0] for l in out.splitlines() if "verif-hooks" in l]
    except Exception:
        return []


def main():
    checks = []
    for pid in sorted(props.P):
        c = props.P[pid]
        checks.append({
            "property_id": pid,
            "quick_cmd": "./verify check %s --tier quick" % pid,
            "thorough_cmd": "./verify check %s --tier thorough" % pid,
            "evidence_file": "/verif/evidence/%s.json" % pid,
            "replay_cmd_template": "./verify replay {path}",
            "engine": "kani-cbmc",
            "technique": "bounded model checking of the real Rust code: Kani proof harnesses over kani::any() inputs, CBMC symbolic execution + SAT (CaDiCaL; Kissat cross-check in thorough); counterexamples replayed natively",
            "level_claimed": {
                "category": "model_checking",
                "text": "SAT-decided for every value of the symbolic inputs within the stated bounds: " + c["bounds"],
                "design_ref": "DESIGN.md section 5, " + pid,
            },
            "level_note": "Trusted: Kani/CBMC/CaDiCaL, the reference models and oracles of /verif (validated against the repo's own test vectors each run), "
                          "the derived equality of the verif-hooks feature, and the induction argument of DESIGN.md section 1. Assumptions: "
                          + ("; ".join(c["assumptions"]) if c["assumptions"] else "none beyond the bounds") + ".",
        })
    m = {
        "version": 1,
        "setup_cmd": "./verify setup",
        "hooks": {
            "guard": "cargo feature `verif-hooks` of pc-keyboard",
            "enable": "the harness crate depends on /repo by path with features = [\"verif-hooks\"] (cargo kani / cargo build in /verif/build/crate)",
            "baseline_off_cmd": "cd /repo && cargo test --workspace --no-fail-fast --offline",
            "source_commits": hook_commits(),
            "add_only": True,
        },
        "engines": [{
            "name": "kani-cbmc",
            "path": "/verif/verify",
            "serves_properties": sorted(props.P),
            "kind_free_text": "Kani 0.68.0 proof harnesses (crate /verif/harness, generated parts from /repo and /verif/oracle on every run) -> CBMC 6.11.0 -> CaDiCaL/Kissat; native companion binary for replay, samples, witness search and model validation",
        }],
        "checks": checks,
        "not_applicable": [{"property_id": k, "reason": v} for k, v in sorted(props.NOT_APPLICABLE.items())],
        "notes": "Exit 2 of a check means inconclusive (build failure, timeout, out of memory, non-reproducing counterexample); it is never reported as a pass or as a violation. "
                 "Known findings live in /verif/known_findings.json.",
    }
    with open(os.path.join(VERIF, "MANIFEST.json"), "w") as f:
        json.dump(m, f, indent=1)
        f.write("\n")


if __name__ == "__main__":
    main()
