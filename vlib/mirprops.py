"""Property queries for the second engine (vlib/mirsmt.py): SMT-LIB encodings of the parts of the
properties that live in loop-free leaf functions.  Every query is the *negation* of the claim over the
summaries extracted from the MIR of /repo's current tree; `unsat` from both z3 and cvc5 = holds.

Covered: C05 (frame check), C11 (predicates and 2-safety), C17 (AnyLayout, both impls), C10 (CapsLock),
C16 (raw keys), C09 (Ctrl mapping) on all layouts; C19 injectivity, C13 and C01/C02 at the level of the
six code->key tables.  The stateful parts (prefix automata, shift register, event decoder) are Kani's.
"""
import json
import os
import re
import time

from . import gen
from . import mirsmt as M
from . import mirstate
from .mirsmt import V, bvc, Unsupported

BV16 = "(_ BitVec 16)"
MODS = M.MOD_FIELDS


def mods_params():
    return " ".join("(m_%s Bool)" % f for f in MODS)


def mods_args(prefix):
    return " ".join("%s_%s" % (prefix, f) for f in MODS)


class Engine:
    def __init__(self, repo, workdir):
        self.repo = repo
        t0 = time.time()
        text = M.dump_mir(repo, workdir)
        self.mir_lines = text.count("\n")
        self.fns = M.parse_mir(text)
        self.enums = M.parse_enums(repo)
        self.ctx = M.Ctx(repo, self.fns, self.enums)
        for m in re.finditer(r"^const (\w+): (\w+) = const (\S+);$", text, re.M):
            try:
                self.ctx.named_consts[m.group(1)] = self.ctx.const(m.group(3))
            except Unsupported:
                pass
        self.keys = self.enums["KeyCode"]
        self.defs = []
        self.panic_queries = []
        self.functions = []
        self.t_mir = time.time() - t0
        self.layout_done = set()
        self.in_progress = set()
        self.ctx.summarize = self.summarize

    def summarize(self, ty):
        """Called by the executor when a layout delegates to another layout: define the callee's
        summary first (from its own MIR) and let the caller apply it. None = inline instead."""
        if ty in self.layout_done:
            return ty
        if ty in self.in_progress:
            return None
        try:
            self.layout(ty)
            return ty
        except Unsupported:
            return None

    def key(self, name):
        return bvc(self.keys.index(name), 16)

    # ---- summaries as define-funs
    def layout(self, ty):
        if ty in self.layout_done:
            return
        self.in_progress.add(ty)
        f = self.ctx.find(ty, "map_keycode")
        self_ = V("ref", target=V("struct", ty=ty, fields=[]))
        paths = M.execute(self.ctx, f, [self_, M.sym_enum(self.ctx, "KeyCode", "k"), V("ref", target=M.sym_mods("m")), M.sym_enum(self.ctx, "HandleControl", "h")])
        (tag, raw, uni), panic = M.flatten(self.ctx, paths, "decoded")
        sig = "((k %s) %s (h %s))" % (BV16, mods_params(), BV16)
        self.defs += ["(define-fun %s_tag %s %s %s)" % (ty, sig, BV16, tag),
                      "(define-fun %s_raw %s %s %s)" % (ty, sig, BV16, raw),
                      "(define-fun %s_uni %s (_ BitVec 32) %s)" % (ty, sig, uni)]
        if panic:
            self.defs.append("(define-fun %s_panic %s Bool (or %s))" % (ty, sig, " ".join(panic + ["false"])))
            self.panic_queries.append(("panicfree_%s" % ty, ["(bvult k %s)" % bvc(len(self.keys), 16), "(bvult h %s)" % bvc(2, 16),
                                                             "(%s_panic k %s h)" % (ty, mods_args("m"))], ["k", "h"]))
        self.functions.append("%s::map_keycode (%d paths)" % (ty, len(paths)))
        self.layout_done.add(ty)
        self.in_progress.discard(ty)

    def anylayout(self, impl, variant_index, variant):
        """Summary of one AnyLayout dispatcher with a concrete variant."""
        name = "any%s_%s" % ("ref" if impl == "&AnyLayout" else "", variant)
        f = self.ctx.find(impl, "map_keycode")
        e = V("enum", ty="AnyLayout", tag=bvc(variant_index, 16), payload={}, lazy=lambda v: [V("struct", ty=v, fields=[])])
        self_ = V("ref", target=e) if impl == "AnyLayout" else V("ref", target=V("ref", target=e))
        paths = M.execute(self.ctx, f, [self_, M.sym_enum(self.ctx, "KeyCode", "k"), V("ref", target=M.sym_mods("m")), M.sym_enum(self.ctx, "HandleControl", "h")])
        (tag, raw, uni), panic = M.flatten(self.ctx, paths, "decoded")
        sig = "((k %s) %s (h %s))" % (BV16, mods_params(), BV16)
        self.defs += ["(define-fun %s_tag %s %s %s)" % (name, sig, BV16, tag),
                      "(define-fun %s_raw %s %s %s)" % (name, sig, BV16, raw),
                      "(define-fun %s_uni %s (_ BitVec 32) %s)" % (name, sig, uni)]
        self.functions.append("<%s as KeyboardLayout>::map_keycode [variant %s] (%d paths)" % (impl, variant, len(paths)))
        return name

    def call(self, name, comp, kv, mprefix, hv):
        return "(%s_%s %s %s %s)" % (name, comp, kv, mods_args(mprefix), hv)

    def same(self, n1, k1, m1, h1, n2, k2, m2, h2):
        return "(and %s)" % " ".join("(= %s %s)" % (self.call(n1, c, k1, m1, h1), self.call(n2, c, k2, m2, h2)) for c in ("tag", "raw", "uni"))

    def table(self, mod, fname):
        f = self.ctx.find(mod, fname)
        paths = M.execute(self.ctx, f, [V("bv", term="c", w=8)])
        (tag, ok, err), panic = M.flatten(self.ctx, paths, "result_key")
        n = "%s_%s" % (mod, fname)
        self.defs += ["(define-fun %s_tag ((c (_ BitVec 8))) %s %s)" % (n, BV16, tag),
                      "(define-fun %s_ok ((c (_ BitVec 8))) %s %s)" % (n, BV16, ok)]
        self.functions.append("%s::%s (%d paths)" % (mod, fname, len(paths)))
        return n


UNICODE_TAG = None


def common_decls(keys):
    d = ["(declare-const k %s)" % BV16, "(declare-const h %s)" % BV16]
    for p in ("m", "m1", "m2"):
        d += M.mods_decls(p)
    d += ["(declare-const w (_ BitVec 16))", "(declare-const c1 (_ BitVec 8))", "(declare-const c2 (_ BitVec 8))"]
    return d


def r_shift(p):
    return "(or %s_lshift %s_rshift)" % (p, p)


def r_ctrl(p):
    return "(or %s_lctrl %s_rctrl)" % (p, p)


def r_altgr(p):
    return "(or %s_ralt (and %s_lalt %s))" % (p, p, r_ctrl(p))


def with_mods(prefix, **over):
    """argument list of the nine flags taken from `prefix`, with some replaced by explicit terms"""
    return " ".join(over.get(f, "%s_%s" % (prefix, f)) for f in MODS)


def build(repo, workdir, props):
    """Returns (engine, decls, queries, notes). queries: (property, name, asserts, getvals)."""
    E = Engine(repo, workdir)
    enums = E.enums
    DK = enums["DecodedKey"]
    RAW, UNI = bvc(DK.index("RawKey"), 16), bvc(DK.index("Unicode"), 16)
    HC = enums["HandleControl"]
    MAP, IGN = bvc(HC.index("MapLettersToUnicode"), 16), bvc(HC.index("Ignore"), 16)
    ERR = enums["Error"]
    nkeys = len(E.keys)
    dom = ["(bvult k %s)" % bvc(nkeys, 16), "(bvult h %s)" % bvc(2, 16)]
    Q = []
    layouts = [ty for _, ty in gen.LAYOUTS]

    def lcall(ty, comp, kv="k", over=None, hv="h", prefix="m"):
        return "(%s_%s %s %s %s)" % (ty, comp, kv, with_mods(prefix, **(over or {})), hv)

    def lsame(ty, a, b):
        (k1, o1, h1, p1), (k2, o2, h2, p2) = a, b
        return "(and %s)" % " ".join("(= %s %s)" % (lcall(ty, c, k1, o1, h1, p1), lcall(ty, c, k2, o2, h2, p2)) for c in ("tag", "raw", "uni"))

    if "C05" in props:
        f = E.ctx.find("Ps2Decoder", "check_word")
        paths = M.execute(E.ctx, f, [V("bv", term="w", w=16)])
        (tag, ok, err), panic = M.flatten(E.ctx, paths, "result_u8")
        E.functions.append("Ps2Decoder::check_word + get_bit + has_even_number_bits (%d paths)" % len(paths))
        bit = lambda i: "((_ extract %d %d) w)" % (i, i)
        par = "(bvxor %s)" % " ".join(bit(i) for i in range(1, 10))
        start, stop = "(= %s #b1)" % bit(0), "(= %s #b1)" % bit(10)
        ref_tag = "(ite (or %s (not %s) (not (= %s #b1))) %s %s)" % (start, stop, par, bvc(1, 16), bvc(0, 16))
        ref_err = "(ite %s %s (ite (not %s) %s %s))" % (start, bvc(ERR.index("BadStartBit"), 16), stop, bvc(ERR.index("BadStopBit"), 16), bvc(ERR.index("ParityError"), 16))
        ref_ok = "((_ extract 8 1) w)"
        Q.append(("C05", "frame_check_equals_reference", ["(bvult w %s)" % bvc(2048, 16),
                  "(not (and (= %s %s) (=> (= %s %s) (= %s %s)) (=> (= %s %s) (= %s %s))))" % (tag, ref_tag, ref_tag, bvc(0, 16), ok, ref_ok, ref_tag, bvc(1, 16), err, ref_err)], ["w"]))
        if panic:
            Q.append(("C05", "frame_check_panic_free_all_u16", ["(or %s)" % " ".join(panic)], ["w"]))

    if "C11" in props:
        for name, ref in (("is_shifted", r_shift("m")), ("is_ctrl", r_ctrl("m")), ("is_alt", "(or m_lalt m_ralt)"),
                          ("is_altgr", r_altgr("m")), ("is_caps", "(xor %s m_capslock)" % r_shift("m"))):
            f = E.ctx.find("Modifiers", name)
            paths = M.execute(E.ctx, f, [V("ref", target=M.sym_mods("m"))])
            t, panic = M.flatten(E.ctx, paths, "bool")
            E.functions.append("Modifiers::%s" % name)
            Q.append(("C11", "predicate_%s" % name, ["(not (= %s %s))" % (t, ref)], ["m_" + x for x in MODS]))

    need_layouts = any(p in props for p in ("C03", "C08", "C09", "C10", "C11", "C12", "C15", "C16", "C17"))
    if need_layouts:
        for ty in layouts:
            E.layout(ty)
    numpad = [n for n in E.keys if n.startswith("Numpad")]
    is_numpad = "(or %s)" % " ".join("(= k %s)" % E.key(n) for n in numpad)
    gv = ["k", "h"] + ["m_" + x for x in MODS]
    for ty in layouts if need_layouts else []:
        if "C11" in props:
            a = ["(= %s %s)" % (r_shift("m1"), r_shift("m2")), "(= %s %s)" % (r_ctrl("m1"), r_ctrl("m2")),
                 "(= %s %s)" % (r_altgr("m1"), r_altgr("m2")), "(= m1_capslock m2_capslock)",
                 "(or (= m1_numlock m2_numlock) (not %s))" % is_numpad]
            Q.append(("C11", "two_safety_%s" % ty, dom + a + ["(not %s)" % lsame(ty, ("k", None, "h", "m1"), ("k", None, "h", "m2"))],
                      ["k", "h"] + ["m1_" + x for x in MODS] + ["m2_" + x for x in MODS]))
        if "C10" in props:
            # context: shifts and caps off in m; which shift key(s): m1_lshift / m1_rshift not both false
            base = dict(lshift="false", rshift="false", capslock="false")
            sh = dict(lshift="m1_lshift", rshift="m1_rshift", capslock="false")
            cp = dict(lshift="false", rshift="false", capslock="true")
            cs = dict(lshift="m1_lshift", rshift="m1_rshift", capslock="true")
            b_uni, s_uni = lcall(ty, "uni", over=base), lcall(ty, "uni", over=sh)
            lower = "(or (and (bvuge {0} #x00000061) (bvule {0} #x0000007a)) (and (bvuge {0} #x000000e0) (bvule {0} #x000000fe) (distinct {0} #x000000f7)))".format(b_uni)
            letter = "(and (= %s %s) (= %s %s) %s (= %s (bvsub %s #x00000020)))" % (lcall(ty, "tag", over=base), UNI, lcall(ty, "tag", over=sh), UNI, lower, s_uni, b_uni)
            ok_letter = "(and %s %s)" % (lsame(ty, ("k", cp, "h", "m"), ("k", sh, "h", "m")), lsame(ty, ("k", cs, "h", "m"), ("k", base, "h", "m")))
            ok_other = "(and %s %s)" % (lsame(ty, ("k", cp, "h", "m"), ("k", base, "h", "m")), lsame(ty, ("k", cs, "h", "m"), ("k", sh, "h", "m")))
            Q.append(("C10", "capslock_%s" % ty, dom + ["(or m1_lshift m1_rshift)", "(not (ite %s %s %s))" % (letter, ok_letter, ok_other)],
                      gv + ["m1_lshift", "m1_rshift"]))
        if "C16" in props:
            alias = {"Numpad0": "Insert", "Numpad1": "End", "Numpad2": "ArrowDown", "Numpad3": "PageDown", "Numpad4": "ArrowLeft",
                     "Numpad6": "ArrowRight", "Numpad7": "Home", "Numpad8": "ArrowUp", "Numpad9": "PageUp"}
            alias_ok = "(or %s)" % " ".join("(and (= k %s) (not m_numlock) (= %s %s))" % (E.key(a), lcall(ty, "raw"), E.key(b)) for a, b in alias.items() if a in E.keys and b in E.keys)
            Q.append(("C16", "raw_is_own_or_alias_%s" % ty, dom + ["(= %s %s)" % (lcall(ty, "tag"), RAW), "(not (or (= %s k) %s))" % (lcall(ty, "raw"), alias_ok)], gv))
            charless = ["F1", "F2", "F3", "F4", "F5", "F6", "F7", "F8", "F9", "F10", "F11", "F12", "PrintScreen", "SysRq", "ScrollLock", "PauseBreak",
                        "Insert", "Home", "PageUp", "End", "PageDown", "ArrowUp", "ArrowDown", "ArrowLeft", "ArrowRight", "LShift", "RShift", "LControl",
                        "RControl", "LAlt", "RAltGr", "LWin", "RWin", "Apps", "CapsLock", "NumpadLock", "PrevTrack", "NextTrack", "Mute", "Calculator",
                        "Play", "Stop", "VolumeDown", "VolumeUp", "WWWHome", "PowerOnTestOk", "TooManyKeys", "RControl2", "RAlt2", "Oem9", "Oem10", "Oem11"]
            is_cl = "(or %s)" % " ".join("(= k %s)" % E.key(n) for n in charless if n in E.keys)
            Q.append(("C16", "characterless_keys_%s" % ty, dom + [is_cl, "(not (and (= %s %s) (= %s k)))" % (lcall(ty, "tag"), RAW, lcall(ty, "raw"))], gv))
        if "C09" in props:
            init = dict(lshift="false", rshift="false", lctrl="false", rctrl="false", numlock="true", capslock="false", lalt="false", ralt="false", rctrl2="false")
            p_tag, p_uni = lcall(ty, "tag", over=init, hv=IGN), lcall(ty, "uni", over=init, hv=IGN)
            letter = "(and (= %s %s) (bvuge %s #x00000061) (bvule %s #x0000007a))" % (p_tag, UNI, p_uni, p_uni)
            noalt = "(and (not m_lalt) (not m_ralt))"
            ctrl = r_ctrl("m")
            same_modes = lsame(ty, ("k", None, MAP, "m"), ("k", None, IGN, "m"))
            noctrl = dict(lctrl="false", rctrl="false")
            c_ii = "(=> (not %s) %s)" % (ctrl, same_modes)
            c_iv = "(=> %s %s)" % (noalt, lsame(ty, ("k", None, IGN, "m"), ("k", noctrl, IGN, "m")))
            c_iii = "(=> (not %s) %s)" % (letter, same_modes)
            c_i = "(=> (and %s %s %s) (and (= %s %s) (= %s (bvsub %s #x00000060))))" % (letter, ctrl, noalt, lcall(ty, "tag", hv=MAP), UNI, lcall(ty, "uni", hv=MAP), p_uni)
            Q.append(("C09", "ctrl_mapping_%s" % ty, ["(bvult k %s)" % bvc(nkeys, 16), "(not (and %s %s %s %s))" % (c_i, c_ii, c_iii, c_iv)], ["k"] + ["m_" + x for x in MODS]))

    if "C12" in props:
        E.defs.append("(declare-const ch (_ BitVec 32))")
        init = dict(lshift="false", rshift="false", lctrl="false", rctrl="false", numlock="true", capslock="false", lalt="false", ralt="false", rctrl2="false")
        levels = [init, dict(init, lshift="true"), dict(init, ralt="true")]
        for ty in layouts:
            none_types = []
            for i in range(nkeys):
                for lv in levels:
                    kk = bvc(i, 16)
                    none_types.append("(not (and (= %s %s) (= %s ch)))" % (lcall(ty, "tag", kv=kk, over=lv), UNI, lcall(ty, "uni", kv=kk, over=lv)))
            Q.append(("C12", "every_ascii_char_typable_%s" % ty, ["(bvuge ch #x00000020)", "(bvule ch #x0000007e)", "(bvult h %s)" % bvc(2, 16)] + none_types, ["ch", "h"]))

    if "C15" in props:
        digits = {"Numpad0": ("0", "Insert"), "Numpad1": ("1", "End"), "Numpad2": ("2", "ArrowDown"), "Numpad3": ("3", "PageDown"), "Numpad4": ("4", "ArrowLeft"),
                  "Numpad5": ("5", None), "Numpad6": ("6", "ArrowRight"), "Numpad7": ("7", "Home"), "Numpad8": ("8", "ArrowUp"), "Numpad9": ("9", "PageUp")}
        fixed = {"NumpadDivide": "/", "NumpadMultiply": "*", "NumpadSubtract": "-", "NumpadAdd": "+", "Escape": "\x1b", "Backspace": "\x08", "Tab": "\t",
                 "Return": "\n", "Delete": "\x7f", "Spacebar": " "}
        for ty in layouts:
            def uni_is(ch):
                return "(and (= %s %s) (= %s %s))" % (lcall(ty, "tag"), UNI, lcall(ty, "uni"), bvc(ord(ch), 32))

            def raw_is(kn):
                return "(and (= %s %s) (= %s %s))" % (lcall(ty, "tag"), RAW, lcall(ty, "raw"), E.key(kn))
            cl = []
            for kn, (d, al) in digits.items():
                off = raw_is(al) if al else "(or %s %s)" % (uni_is("5"), raw_is("Numpad5"))
                cl.append("(=> (= k %s) (ite m_numlock %s %s))" % (E.key(kn), uni_is(d), off))
            for kn, ch in fixed.items():
                cl.append("(=> (= k %s) %s)" % (E.key(kn), uni_is(ch)))
            cl.append("(=> (= k %s) %s)" % (E.key("NumpadEnter"), lsame(ty, ("k", None, "h", "m"), (E.key("Return"), None, "h", "m"))))
            dec = {"No105Key": [","], "FiSe105Key": [","], "De105Key": [",", "."]}.get(ty, ["."])
            cl.append("(=> (= k %s) (ite m_numlock (or %s) %s))" % (E.key("NumpadPeriod"), " ".join(uni_is(x) for x in dec), uni_is("\x7f")))
            Q.append(("C15", "numpad_and_editing_keys_%s" % ty, dom + ["(not (and %s))" % " ".join(cl)], gv))

    if "C03" in props:
        lay = json.load(open(os.path.join(gen.VERIF, "oracle/layouts.json")))["layouts"]
        for ty in layouts:
            cells = lay[ty]

            def member(level, uni_t):
                alts = []
                for kn in sorted(cells):
                    if kn in E.keys and len(cells[kn]) > level and cells[kn][level]:
                        alts.append("(and (= k %s) (or %s))" % (E.key(kn), " ".join("(= %s %s)" % (uni_t, bvc(ord(c), 32)) for c in cells[kn][level])))
                return "(or %s)" % " ".join(alts + ["false"])

            def has(level):
                return "(or %s)" % " ".join(["(= k %s)" % E.key(kn) for kn in sorted(cells) if kn in E.keys and len(cells[kn]) > level and cells[kn][level]] + ["false"])
            pre = dom + ["(not m_capslock)", "(not (and (= h %s) %s))" % (MAP, r_ctrl("m"))]
            tag, uni = lcall(ty, "tag"), lcall(ty, "uni")
            for level, cond in ((0, "(and (not %s) (not %s))" % (r_shift("m"), r_altgr("m"))), (1, "(and %s (not %s))" % (r_shift("m"), r_altgr("m")))):
                Q.append(("C03", "level%d_chars_%s" % (level, ty), pre + [cond, has(level), "(not (and (= %s %s) %s))" % (tag, UNI, member(level, uni))], gv))
            noalt = dict(lalt="false", ralt="false")
            differs = "(not %s)" % lsame(ty, ("k", None, "h", "m"), ("k", noalt, "h", "m"))
            Q.append(("C03", "altgr_chars_%s" % ty, pre + ["(and (not %s) %s)" % (r_shift("m"), r_altgr("m")), differs,
                      "(not (and (= %s %s) %s))" % (tag, UNI, member(2, uni))], gv))

    if "C17" in props:
        variants = enums["AnyLayout"]
        for i, v in enumerate(variants):
            if v not in layouts:
                raise Unsupported("AnyLayout variant %s has no layout of the same name" % v)
            for impl in ("AnyLayout", "&AnyLayout"):
                n = E.anylayout(impl, i, v)
                Q.append(("C17", "%s_equals_%s" % (n, v), dom + ["(not %s)" % E.same(n, "k", "m", "h", v, "k", "m", "h")], gv))

    if any(p in props for p in ("C01", "C02", "C13", "C19")):
        T = {}
        for mod in ("set1", "set2"):
            for fname, short in (("map_scancode", "plain"), ("map_extended_scancode", "e0"), ("map_extended2_scancode", "e1")):
                T[(mod, short)] = E.table(mod, fname)
        OK = bvc(0, 16)
        sc = json.load(open(os.path.join(gen.VERIF, "oracle/scancodes.json")))
        xl = json.load(open(os.path.join(gen.VERIF, "oracle/i8042_xlat.json")))
        known = gen.load_known()
        k_set1 = set()
        k_fwd = set()
        k_bwd = set()
        for f in known.get("findings", []):
            if f.get("status") == "open":
                for inp in f.get("inputs", []):
                    if inp["kind"] == "set1_transition":
                        k_set1.add((inp["ctx"], inp["byte"] & 0x7F))
                    elif inp["kind"] == "xlat_forward":
                        k_fwd.add((inp["ctx"], inp["set2_code"]))
                    elif inp["kind"] == "xlat_backward":
                        k_bwd.add((inp["ctx"], inp["set1_code"]))
        pre_i = {"": 0, "E0": 1, "E1": 2}
        shorts = ["plain", "e0", "e1"]
        if "C19" in props:
            for mod in ("set1", "set2"):
                lim = ["(bvult c1 #x80)", "(bvult c2 #x80)"] if mod == "set1" else []
                for i in range(3):
                    for j in range(i, 3):
                        a, b = T[(mod, shorts[i])], T[(mod, shorts[j])]
                        dist = ["(distinct c1 c2)"] if i == j else []
                        # the two status codes of Set 2 are not presses
                        st = ["(not (or (= c1 #x00) (= c1 #xaa)))"] if (mod == "set2" and i == 0) else []
                        st += ["(not (or (= c2 #x00) (= c2 #xaa)))"] if (mod == "set2" and j == 0) else []
                        Q.append(("C19", "injective_%s_%s_%s" % (mod, shorts[i], shorts[j]), lim + dist + st +
                                  ["(= (%s_tag c1) %s)" % (a, OK), "(= (%s_tag c2) %s)" % (b, OK), "(= (%s_ok c1) (%s_ok c2))" % (a, b)], ["c1", "c2"]))
        for pid, mod in (("C01", "set2"), ("C02", "set1")):
            if pid not in props:
                continue
            for short, pre in (("plain", ""), ("e0", "E0"), ("e1", "E1")):
                want = {}
                for row in sc["keys"]:
                    if row.get(mod) and row[mod][0] == pre and row["key"] in E.keys:
                        want[row[mod][1]] = row["key"]
                if mod == "set2" and short == "plain":
                    for code, kname in sc["set2_status"].items():
                        want[int(code)] = kname
                n = T[(mod, short)]
                ref_tag = "(ite (or %s) %s %s)" % (" ".join("(= c1 %s)" % bvc(c, 8) for c in sorted(want)) or "false", OK, bvc(1, 16))
                ref_ok = bvc(0, 16)
                for c in sorted(want):
                    ref_ok = "(ite (= c1 %s) %s %s)" % (bvc(c, 8), E.key(want[c]), ref_ok)
                excl = []
                if mod == "set2" and short == "plain":
                    excl.append("(distinct c1 #x84)")  # lenient cell: UnknownKeyCode or SysRq
                if mod == "set1":
                    excl.append("(bvult c1 #x80)")
                    for (cx, code) in sorted(k_set1):
                        if cx == pre_i[pre]:
                            excl.append("(distinct c1 %s)" % bvc(code, 8))
                Q.append((pid, "table_%s_%s_equals_oracle" % (mod, short), excl +
                          ["(not (and (= (%s_tag c1) %s) (=> (= %s %s) (= (%s_ok c1) %s)) (=> (= (%s_tag c1) %s) true)))" % (n, ref_tag, ref_tag, OK, n, ref_ok, n, bvc(1, 16))], ["c1"]))
        if "C13" in props:
            x = [0xFF] * 256
            for kk, vv in xl["xlat"].items():
                x[int(kk, 16)] = int(vv, 16)
            xl_t = bvc(0xFF, 8)
            for c in range(255, -1, -1):
                if x[c] != 0xFF:
                    xl_t = "(ite (= c1 %s) %s %s)" % (bvc(c, 8), bvc(x[c], 8), xl_t)
            E.defs.append("(define-fun xlat ((c1 (_ BitVec 8))) (_ BitVec 8) %s)" % xl_t)
            for i, short in enumerate(shorts):
                a, b = T[("set2", short)], T[("set1", short)]
                excl = ["(distinct (xlat c1) #xff)"]
                if i == 0:
                    excl.append("(not (or (= c1 #x00) (= c1 #xaa)))")
                for (cx, code) in sorted(k_fwd):
                    if cx == i:
                        excl.append("(distinct c1 %s)" % bvc(code, 8))
                Q.append(("C13", "forward_tables_%s" % short, excl + ["(= (%s_tag c1) %s)" % (a, OK),
                          "(not (and (= (%s_tag (xlat c1)) %s) (= (%s_ok (xlat c1)) (%s_ok c1))))" % (b, OK, b, a)], ["c1"]))
                exb = ["(bvult c2 #x80)"]
                for (cx, code) in sorted(k_bwd):
                    if cx == i:
                        exb.append("(distinct c2 %s)" % bvc(code, 8))
                # backward: a Set 1 code that decodes must have a Set 2 preimage decoding to the same key
                pre_terms = []
                for c in range(256):
                    if x[c] != 0xFF:
                        pre_terms.append("(and (= c2 %s) (= (%s_tag %s) %s) (= (%s_ok %s) (%s_ok c2)))" % (bvc(x[c], 8), a, bvc(c, 8), OK, a, bvc(c, 8), b))
                Q.append(("C13", "backward_tables_%s" % short, exb + ["(= (%s_tag c2) %s)" % (b, OK), "(not (or %s))" % " ".join(pre_terms)], ["c2"]))
    if "C08" in props:
        # panic freedom of the leaf functions: every assert/unreachable terminator met on some path is infeasible
        f = E.ctx.find("Ps2Decoder", "check_word")
        paths = M.execute(E.ctx, f, [V("bv", term="w", w=16)])
        pan = [c for c, v in paths if isinstance(v, tuple)]
        E.functions.append("Ps2Decoder::check_word (%d paths, %d with a panic terminator)" % (len(paths), len(pan)))
        Q.append(("C08", "panicfree_check_word_all_u16", ["(or %s)" % " ".join(pan + ["false"])], ["w"]))
        for mod in ("set1", "set2"):
            for fname in ("map_scancode", "map_extended_scancode", "map_extended2_scancode"):
                f = E.ctx.find(mod, fname)
                paths = M.execute(E.ctx, f, [V("bv", term="c", w=8)])
                pan = [c.replace(" c)", " c1)").replace("(= c ", "(= c1 ") for c, v in paths if isinstance(v, tuple)]
                E.functions.append("%s::%s (%d paths, %d with a panic terminator)" % (mod, fname, len(paths), len(pan)))
                Q.append(("C08", "panicfree_%s_%s" % (mod, fname), ["(or %s)" % " ".join(pan + ["false"])], ["c1"]))
        for name in ("is_shifted", "is_ctrl", "is_alt", "is_altgr", "is_caps"):
            f = E.ctx.find("Modifiers", name)
            paths = M.execute(E.ctx, f, [V("ref", target=M.sym_mods("m"))])
            pan = [c for c, v in paths if isinstance(v, tuple)]
            Q.append(("C08", "panicfree_Modifiers_%s" % name, ["(or %s)" % " ".join(pan + ["false"])], []))
        got = {q[0] for q in E.panic_queries}
        for ty in layouts:
            if "panicfree_%s" % ty in got:
                continue
            E.panic_queries.append(("panicfree_%s" % ty, ["false"], []))  # no panic terminator on any path
        for n, a, g in E.panic_queries:
            Q.append(("C08", n, a, g))
    extra_decls = []
    stateful = props & {"C01", "C02", "C04", "C06", "C07", "C14"}
    if stateful:
        known = gen.load_known()
        k_set1_full = set()
        for f in known.get("findings", []):
            if f.get("status") == "open":
                for inp in f.get("inputs", []):
                    if inp["kind"] == "set1_transition":
                        k_set1_full.add((inp["ctx"], inp["byte"]))
        extra_decls.append("(declare-const b (_ BitVec 8))")
        for pid in sorted(stateful):
            try:
                if pid in ("C01", "C02", "C07"):
                    Q += mirstate.scancode_queries(E, pid, k_set1_full)
                elif pid == "C06":
                    d, q = mirstate.frame_queries(E)
                    extra_decls += d
                    Q += q
                else:
                    d, q = mirstate.event_queries(E, pid)
                    extra_decls += [x for x in d if x not in extra_decls]
                    Q += q
            except Unsupported as e:
                E.functions.append("stateful part of %s not encoded on this tree: %s" % (pid, e))
            except (IndexError, KeyError, AttributeError, TypeError, ValueError) as e:
                E.functions.append("stateful part of %s not encoded on this tree: %r" % (pid, e))
    decls = common_decls(E.keys) + extra_decls + E.defs
    return E, decls, Q


def run(repo, workdir, pid, mode="both"):
    """Run the second engine for one property. Returns a dict for the evidence file."""
    t0 = time.time()
    try:
        E, decls, Q = build(repo, workdir, {pid})
    except Unsupported as e:
        return {"applicable": False, "reason": "MIR subset not supported on this tree: %s" % e}
    except Exception as e:  # parsing problems must never turn into a verdict
        return {"applicable": False, "reason": "second engine failed to encode this tree: %r" % (e,)}
    Q = [q for q in Q if q[0] == pid]
    if not Q:
        return {"applicable": False, "reason": "no leaf-function part of this property is encoded by the second engine"}
    t_enc = round(time.time() - t0, 3)
    res, times, size = M.run_queries(decls, [(n, a, g) for _, n, a, g in Q], mode=mode)
    out = {"applicable": True, "engine": "MIR (rustc nightly -Zunpretty=mir) -> SMT-LIB2 -> z3 + cvc5", "mir_lines": E.mir_lines,
           "functions_encoded": E.functions, "queries": [], "solver_time_s": times, "smt_script_bytes": size,
           "encode_time_s": t_enc}
    verdict = "unsat"
    for _, n, a, g in Q:
        r = res.get(n, {})
        ans = {s: r.get(s, ["missing", ""])[0] for s, _ in M.SOLVERS}
        q = {"name": n, "answers": ans}
        vals = set(ans.values())
        if mode == "first":  # quick tier: one complete answer suffices, the other solver was stopped
            vals -= {"missing", "unknown"}
        if vals == {"unsat"}:
            pass
        elif "sat" in vals and vals <= {"sat"}:
            verdict = "sat"
            q["model"] = {s: r[s][1][:600] for s in r}
        else:
            if verdict != "sat":
                verdict = "inconclusive"
            q["model"] = {s: r[s][1][:300] for s in r if r[s][1]}
        out["queries"].append(q)
    out["verdict"] = verdict
    out["not_encoded"] = [f for f in E.functions if "not encoded" in f]
    out["mode"] = "both solvers must agree" if mode == "both" else "first solver to answer every query"
    out["queries_discharged"] = sum(1 for q in out["queries"] if "unsat" in q["answers"].values() and not (set(q["answers"].values()) & {"sat", "error"}))
    return out
