"""Second, independent engine: symbolic execution of rustc's MIR dump of /repo into SMT-LIB2.

The loop-free leaf functions of pc-keyboard (frame check, modifier predicates, the six code->key tables,
the ten layouts' map_keycode and both AnyLayout dispatchers) are executed symbolically, path by path,
straight from `cargo +nightly rustc -- -Zunpretty=mir` of /repo's *current* tree.  Inputs are symbolic
bit-vectors / Booleans, each path yields (path condition, return value), a function becomes an ite-chain,
properties become assertions over those terms, and z3 and cvc5 must both answer `unsat` for the negated
property.  Nothing here is shared with Kani/CBMC: different front end (rustc nightly's MIR text), different
encoding (this file), different solvers (SMT instead of SAT).

Supported MIR subset: scalar/bool/char locals, fieldless enums, Result/Option/DecodedKey/AnyLayout enums,
the Modifiers struct behind a shared reference, unit structs, switchInt, goto, return, assert, unreachable,
calls to functions of the crate (inlined) and to a short list of modelled core functions.  Anything else
raises Unsupported, which the driver reports as "second engine not applicable to this tree" - it never
turns into a pass or an alarm.
"""
import os
import re
import shutil
import subprocess
import time


class Unsupported(Exception):
    pass


# ------------------------------------------------------------------------------------------------
# MIR dump and parsing
# ------------------------------------------------------------------------------------------------

def dump_mir(repo, workdir):
    """MIR text of the library crate at `repo` (nightly toolchain, overflow checks on)."""
    tgt = os.path.join(workdir, "mir-target")
    shutil.rmtree(tgt, ignore_errors=True)
    env = dict(os.environ, CARGO_NET_OFFLINE="true", CARGO_TARGET_DIR=tgt, CARGO_TERM_COLOR="never")
    p = subprocess.run(["cargo", "+nightly", "rustc", "--offline", "--lib", "--no-default-features", "--",
                        "-Zunpretty=mir", "-C", "debug-assertions=off", "-C", "overflow-checks=on"],
                       cwd=repo, env=env, stdout=subprocess.PIPE, stderr=subprocess.PIPE, text=True, timeout=600)
    shutil.rmtree(tgt, ignore_errors=True)
    if p.returncode != 0 or "fn " not in p.stdout:
        raise Unsupported("MIR dump failed: " + p.stderr[-500:])
    return p.stdout


class Fn:
    def __init__(self, name, params, ret, body):
        self.name, self.params, self.ret = name, params, ret
        self.locals = {}
        self.blocks = {}
        self.impl_loc = None
        m = re.search(r"<impl at (src/[^:]+):(\d+):", name)
        if m:
            self.impl_loc = (m.group(1), int(m.group(2)))
        self.method = name.split("::")[-1]
        self.module = name.split("<impl")[0].strip(":")
        for pn, pt in params:
            self.locals[pn] = pt
        cur = None
        for line in body:
            s = line.strip()
            m = re.match(r"let (?:mut )?(_\d+): (.*);$", s)
            if m:
                self.locals[m.group(1)] = m.group(2)
                continue
            m = re.match(r"(bb\d+)(?: \(cleanup\))?: \{$", s)
            if m:
                cur = m.group(1)
                self.blocks[cur] = []
                continue
            if cur is None or s in ("}", "") or s.startswith("debug ") or s.startswith("scope "):
                if s == "}":
                    cur = None if cur is not None and line.startswith("    }") else cur
                continue
            self.blocks[cur].append(s)


def parse_mir(text):
    fns = []
    lines = text.splitlines()
    i = 0
    ctfe = False
    while i < len(lines):
        l = lines[i]
        if l.startswith("// MIR FOR CTFE"):
            ctfe = True
        mc = re.match(r"^const (.*::promoted\[\d+\]): (.*) = \{$", l)
        if mc:
            j = i + 1
            while j < len(lines) and lines[j] != "}":
                j += 1
            f = Fn(mc.group(1), [], mc.group(2).strip(), lines[i + 1:j])
            f.is_promoted = True
            fns.append(f)
            i = j + 1
            continue
        m = re.match(r"^fn (.*?)\((.*)\) -> (.*) \{$", l)
        if m:
            j = i + 1
            while j < len(lines) and lines[j] != "}":
                j += 1
            if not ctfe:
                params = []
                ps = m.group(2).strip()
                if ps:
                    for part in split_top(ps):
                        pn, pt = part.split(": ", 1)
                        params.append((pn.strip(), pt.strip()))
                fns.append(Fn(m.group(1), params, m.group(3).strip(), lines[i + 1:j]))
            ctfe = False
            i = j
        i += 1
    return fns


CHAR_LIT = re.compile(r"'(\\u\{[0-9a-fA-F]+\}|\\.|[^\\'])'")


def split_top(s):
    # protect char literals such as ',' '(' '<' from the bracket/comma scan
    lits = []

    def stash(m):
        lits.append(m.group(0))
        return "\x00%d\x00" % (len(lits) - 1)
    s = CHAR_LIT.sub(stash, s)
    parts = _split_top(s)
    return [re.sub(r"\x00(\d+)\x00", lambda m: lits[int(m.group(1))], p) for p in parts]


def _split_top(s):
    out, depth, cur = [], 0, ""
    for ch in s:
        if ch in "<([":
            depth += 1
        elif ch in ">)]":
            depth -= 1
        if ch == "," and depth == 0:
            out.append(cur.strip())
            cur = ""
        else:
            cur += ch
    if cur.strip():
        out.append(cur.strip())
    return out


def parse_enums(repo):
    """Variant lists of the crate's enums, in declaration order."""
    enums = {}
    for rel in ("src/lib.rs", "src/layouts/mod.rs"):
        src = open(os.path.join(repo, rel)).read()
        for m in re.finditer(r"enum (\w+)\s*\{(.*?)\n\}", src, re.S):
            body = re.sub(r"//[^\n]*", "", m.group(2))
            body = re.sub(r"#\[[^\]]*\]", "", body)
            vs = []
            for part in split_top(body):
                mm = re.match(r"^(\w+)", part.strip())
                if mm:
                    vs.append(mm.group(1))
            enums[m.group(1)] = vs
    enums["Result"] = ["Ok", "Err"]
    enums["Option"] = ["None", "Some"]
    enums["ControlFlow"] = ["Continue", "Break"]
    return enums


def impl_type(repo, loc):
    rel, line = loc
    src = open(os.path.join(repo, rel)).read().splitlines()
    l = src[line - 1]
    m = re.match(r"\s*impl(?:<[^>]*>)?\s+(?:[\w:]+(?:<[^>]*>)?\s+for\s+)?(&?[\w:]+)", l)
    if not m:
        return None  # e.g. a #[derive(..)] expansion: not a function this engine needs to resolve
    return m.group(1).split("::")[-1]


# ------------------------------------------------------------------------------------------------
# values
# ------------------------------------------------------------------------------------------------

WIDTH = {"u8": 8, "u16": 16, "u32": 32, "u64": 64, "usize": 64, "i8": 8, "i16": 16, "i32": 32, "i64": 64, "isize": 64, "char": 32}


class V:
    """kind: 'bool' (term: Bool), 'bv' (term, w), 'enum' (ty, tag term bv8 or int const, payload: {variant: [V]}),
    'struct' (ty, fields [V]), 'ref' (target V)"""

    def __init__(self, kind, **kw):
        self.kind = kind
        self.__dict__.update(kw)


def bvc(n, w):
    return "(_ bv%d %d)" % (n % (1 << w), w)


LIT = re.compile(r"^\(_ bv(\d+) (\d+)\)$")


def lit(t):
    m = LIT.match(t) if isinstance(t, str) else None
    return (int(m.group(1)), int(m.group(2))) if m else None


def mk_bin(op, a, b, w):
    """SMT term for a bit-vector operation, folding literals."""
    la, lb = lit(a), lit(b)
    if la and lb:
        x, y, mask = la[0], lb[0], (1 << w) - 1
        r = {"bvand": x & y, "bvor": x | y, "bvxor": x ^ y, "bvadd": (x + y) & mask, "bvsub": (x - y) & mask, "bvmul": (x * y) & mask,
             "bvlshr": (x >> y) if y < w else 0, "bvshl": ((x << y) & mask) if y < w else 0,
             "bvurem": (x % y) if y else x, "bvudiv": (x // y) if y else mask}.get(op)
        if r is not None:
            return bvc(r, w)
    return "(%s %s %s)" % (op, a, b)


def mk_cmp(op, a, b):
    la, lb = lit(a), lit(b)
    if la and lb:
        x, y = la[0], lb[0]
        r = {"=": x == y, "distinct": x != y, "bvult": x < y, "bvule": x <= y, "bvugt": x > y, "bvuge": x >= y}[op]
        return "true" if r else "false"
    return "(%s %s %s)" % (op, a, b)


def mk_ext(t, frm, to):
    l = lit(t)
    if to == frm:
        return t
    if l:
        return bvc(l[0], to)
    if to < frm:
        return "((_ extract %d 0) %s)" % (to - 1, t)
    return "((_ zero_extend %d) %s)" % (to - frm, t)


def mk_not(t):
    return {"true": "false", "false": "true"}.get(t, "(not %s)" % t)


def short_ty(t):
    t = t.strip()
    t = re.sub(r"[\w]+::", "", t)
    return t


class Ctx:
    def __init__(self, repo, fns, enums):
        self.repo, self.enums = repo, enums
        self.byname = {}
        for f in fns:
            if getattr(f, "is_promoted", False):
                continue
            ity = impl_type(repo, f.impl_loc) if f.impl_loc else None
            f.impl_ty = ity
            self.byname.setdefault((ity, f.method), []).append(f)
            self.byname.setdefault((f.module, f.method), []).append(f)
            if f.impl_loc is None:  # free function
                self.byname.setdefault(("fn", f.method), []).append(f)
            if ity is None:  # e.g. #[derive] impls: index by self / return type
                p0 = short_ty(f.params[0][1]).lstrip("&") if f.params else short_ty(f.ret)
                self.byname.setdefault(("derive:" + p0, f.method), []).append(f)
        self.panics = []
        self.steps = 0
        self.summarize = None
        self.named_consts = {}
        self.generic_layout = None
        self.unit_structs = set()
        ldir = os.path.join(repo, "src/layouts")
        for fn_ in sorted(os.listdir(ldir)):
            if fn_.endswith(".rs"):
                self.unit_structs |= set(re.findall(r"pub struct (\w+);", open(os.path.join(ldir, fn_)).read()))
        self.promoted = {}
        for f in fns:
            if getattr(f, "is_promoted", False):
                mm = re.search(r"(?:^|::)(\w+)::promoted\[(\d+)\]$", f.name)
                if not mm:
                    continue
                ity = impl_type(repo, f.impl_loc) if f.impl_loc else None
                try:
                    ps = execute(self, f, [])
                    if len(ps) == 1 and not isinstance(ps[0][1], tuple):
                        self.promoted[(ity, mm.group(1), int(mm.group(2)))] = ps[0][1]
                        if ity is None:
                            self.promoted[("fn", mm.group(1), int(mm.group(2)))] = ps[0][1]
                except Unsupported:
                    pass

    def find(self, ity, method):
        c = self.byname.get((ity, method), []) or self.byname.get(("derive:" + str(ity), method), [])
        if len(c) != 1:
            raise Unsupported("cannot resolve %s::%s (%d candidates)" % (ity, method, len(c)))
        return c[0]

    # --- constants
    def const(self, s, ty=None):
        s = s.strip()
        if s in ("true", "false"):
            return V("bool", term=s)
        m = re.match(r"^(-?\d+)_(\w+)$", s)
        if m:
            return V("bv", term=bvc(int(m.group(1)), WIDTH[m.group(2)]), w=WIDTH[m.group(2)])
        m = re.match(r"^'(.*)'$", s, re.S)
        if m:
            return V("bv", term=bvc(parse_char(m.group(1)), 32), w=32)
        m = re.match(r"^(u8|u16|u32|u64|usize)::(MAX|MIN)$", s)
        if m:
            w = WIDTH[m.group(1)]
            return V("bv", term=bvc((1 << w) - 1 if m.group(2) == "MAX" else 0, w), w=w)
        m = re.match(r"^(\w+)$", s)
        if m and ty is None:
            return V("struct", ty=s, fields=[])
        raise Unsupported("constant " + s)

    def enum_const(self, ty, variant, payload=None):
        vs = self.enums.get(ty)
        if vs is None or variant not in vs:
            raise Unsupported("unknown enum variant %s::%s" % (ty, variant))
        return V("enum", ty=ty, tag=bvc(vs.index(variant), 16), payload={variant: payload or []})


def parse_char(s):
    if s.startswith("\\u{"):
        return int(s[3:-1], 16)
    esc = {"\\n": 10, "\\r": 13, "\\t": 9, "\\\\": 92, "\\'": 39, '\\"': 34, "\\0": 0}
    if s in esc:
        return esc[s]
    if len(s) == 1:
        return ord(s)
    raise Unsupported("char literal %r" % s)


def to_bool(v):
    if v.kind == "bool":
        return v.term
    if v.kind == "bv":
        return "(not (= %s %s))" % (v.term, bvc(0, v.w))
    raise Unsupported("bool of " + v.kind)


# ------------------------------------------------------------------------------------------------
# symbolic execution by path enumeration
# ------------------------------------------------------------------------------------------------

class Path:
    def __init__(self, cond, env):
        self.cond, self.env = cond, env


def conj(a, b):
    if a == "false" or b == "false":
        return "false"
    if a == "true":
        return b
    if b == "true":
        return a
    return "(and %s %s)" % (a, b)


def execute(ctx, fn, args, depth=0):
    """All paths of fn: list of (condition term, return V or ('panic', msg))."""
    return [(c, v) for c, v, _ in execute_full(ctx, fn, args, depth)]


def execute_full(ctx, fn, args, depth=0, heap=None):
    """All paths of fn: list of (condition, return V or ('panic', msg), final environment).  A `&mut`
    parameter is a reference to a *slot* of the environment (copy-on-write per path); `heap` carries the
    caller's slots into an inlined callee."""
    if depth > 6:
        raise Unsupported("call depth")
    env0 = dict(heap or {})
    for (pn, pt), a in zip(fn.params, args):
        if pt.startswith("&mut ") and a.kind == "ref" and getattr(a, "slot", None) is None:
            slot = "@%d%s" % (depth, pn)
            env0[slot] = a.target
            a = V("ref", slot=slot)
        env0[pn] = a
    results = []
    work = [(Path("true", env0), "bb0")]
    while work:
        path, bb = work.pop()
        ctx.steps += 1
        if ctx.steps > 2000000:
            raise Unsupported("path explosion")
        env = dict(path.env)
        cond = path.cond
        stmts = fn.blocks.get(bb)
        if stmts is None:
            raise Unsupported("missing block " + bb)
        done = False
        for s in stmts:
            s = s.rstrip(";")
            if s.startswith("StorageLive") or s.startswith("StorageDead") or s == "nop" or s.startswith("ConstEvalCounter") or s.startswith("FakeRead") or s.startswith("PlaceMention") or s.startswith("Retag") or s.startswith("//"):
                continue
            if s == "return":
                results.append((cond, env.get("_0", V("struct", ty="()", fields=[])), env))
                done = True
                break
            if s == "unreachable":
                # reaching it would be UB: record as a panic path so that the feasibility query covers it
                results.append((cond, ("panic", "unreachable"), env))
                done = True
                break
            m = re.match(r"^goto -> (bb\d+)$", s)
            if m:
                work.append((Path(cond, env), m.group(1)))
                done = True
                break
            m = re.match(r"^switchInt\((.*)\) -> \[(.*)\]$", s)
            if m:
                v = operand(ctx, fn, env, m.group(1))
                targets = [t.strip() for t in m.group(2).split(",")]
                seen = []
                for t in targets:
                    k, b = t.split(": ")
                    if k == "otherwise":
                        oc = "true"
                        for sv in seen:
                            oc = conj(oc, mk_not(sv))
                        if conj(cond, oc) != "false":
                            work.append((Path(conj(cond, oc), env), b))
                    else:
                        n = int(k)
                        if v.kind == "bool":
                            c = v.term if n != 0 else mk_not(v.term)
                        elif v.kind == "bv":
                            c = mk_cmp("=", v.term, bvc(n, v.w))
                        else:
                            raise Unsupported("switchInt on " + v.kind)
                        c = simplify_eq(c)
                        if c == "false":
                            continue
                        seen.append(c)
                        if conj(cond, c) != "false":
                            work.append((Path(conj(cond, c), env), b))
                        if c == "true":
                            break
                done = True
                break
            m = re.match(r"^assert\((!?)(.*?), \"(.*?)\".*\) -> \[success: (bb\d+).*\]$", s)
            if m:
                v = to_bool(operand(ctx, fn, env, m.group(2)))
                ok = mk_not(v) if m.group(1) else v
                ok = simplify_eq(ok)
                if ok != "true":
                    pc = conj(cond, mk_not(ok))
                    if pc != "false":
                        results.append((pc, ("panic", m.group(3)), env))
                    cond = conj(cond, ok)
                    if cond == "false":
                        done = True
                        break
                work.append((Path(cond, env), m.group(4)))
                done = True
                break
            m = re.match(r"^(.+?) = (.+?)\((.*)\) -> \[return: (bb\d+).*\]$", s)
            if m and not m.group(2).startswith("const ") and re.match(r"^[\w<&]", m.group(2)) and not re.match(r"^(copy|move|Result::<|Option::<|DecodedKey::\w+$)", m.group(2)):
                dest, callee, argstr, nxt = m.group(1), m.group(2), m.group(3), m.group(4)
                argv = [operand(ctx, fn, env, a) for a in split_top(argstr)] if argstr.strip() else []
                heap = {k: v for k, v in env.items() if k.startswith("@")}
                for c2, rv, henv in call(ctx, callee, argv, depth, heap):
                    cc = conj(cond, c2)
                    if cc == "false":
                        continue
                    e2 = dict(env)
                    for k, v in henv.items():  # mutations through &mut arguments
                        if k.startswith("@") and k in env:
                            e2[k] = v
                    if isinstance(rv, tuple):
                        results.append((cc, rv, e2))
                        continue
                    assign(ctx, fn, e2, dest, rv)
                    work.append((Path(cc, e2), nxt))
                done = True
                break
            m = re.match(r"^(.+?) = (.*)$", s)
            if m:
                assign(ctx, fn, env, m.group(1), rvalue(ctx, fn, env, m.group(2), fn.locals.get(m.group(1))))
                continue
            raise Unsupported("statement: " + s)
        if not done:
            raise Unsupported("block %s of %s falls off the end" % (bb, fn.name))
    return results


def simplify_eq(c):
    m = re.match(r"^\(= \(_ bv(\d+) (\d+)\) \(_ bv(\d+) (\d+)\)\)$", c)
    if m:
        return "true" if m.group(1) == m.group(3) else "false"
    if c == "(not true)":
        return "false"
    if c == "(not false)":
        return "true"
    return c


def assign(ctx, fn, env, place, val):
    """Functional update of a place: locals, fields (nested), and the pointee of a `&mut` slot."""
    place = place.strip()
    if re.match(r"^_\d+$", place):
        env[place] = val
        return
    m = re.match(r"^\(\*(.+)\)$", place)
    if m:
        r = place_value(ctx, fn, env, m.group(1))
        if r.kind == "ref" and getattr(r, "slot", None):
            env[r.slot] = val
            return
        raise Unsupported("write through a shared reference: " + place)
    m = re.match(r"^\((.+)\.(\d+): .*\)$", place)
    if m:
        old = place_value(ctx, fn, env, m.group(1))
        if old.kind != "struct":
            raise Unsupported("field assignment into " + old.kind)
        fields = list(old.fields)
        fields[int(m.group(2))] = val
        assign(ctx, fn, env, m.group(1), V("struct", ty=old.ty, fields=fields))  # copy on write
        return
    raise Unsupported("assignment to place " + place)


def place_value(ctx, fn, env, p):
    p = p.strip()
    if re.match(r"^_\d+$", p):
        if p not in env:
            ty = short_ty(fn.locals.get(p, ""))
            if ty in ctx.unit_structs:  # zero-sized local, never assigned in MIR
                return V("struct", ty=ty, fields=[])
            raise Unsupported("use of unassigned local %s in %s" % (p, fn.name))
        return env[p]
    m = re.match(r"^\(\*(.+)\)$", p)
    if m:
        v = place_value(ctx, fn, env, m.group(1))
        if v.kind == "ref":
            if getattr(v, "slot", None):
                return env[v.slot]
            return v.target
        raise Unsupported("deref of non-ref")
    m = re.match(r"^\((.+) as (\w+)\)$", p)  # downcast, only valid together with a field projection
    if m:
        v = place_value(ctx, fn, env, m.group(1))
        return V("downcast", base=v, variant=m.group(2))
    m = re.match(r"^\((.+)\.(\d+): (.*)\)$", p)
    if m:
        base = place_value(ctx, fn, env, m.group(1))
        idx = int(m.group(2))
        if base.kind == "downcast":
            e = base.base
            pl = e.payload.get(base.variant)
            if pl is None:
                # symbolic enum argument: payloads are created lazily per variant
                if getattr(e, "lazy", None):
                    pl = e.lazy(base.variant)
                    e.payload[base.variant] = pl
                else:
                    raise Unsupported("payload of inactive variant " + base.variant)
            return pl[idx]
        if base.kind == "struct":
            return base.fields[idx]
        raise Unsupported("field of " + base.kind)
    raise Unsupported("place " + p)


def operand(ctx, fn, env, s):
    s = s.strip()
    m = re.match(r"^(copy|move) (.*)$", s)
    if m:
        return place_value(ctx, fn, env, m.group(2))
    if s.startswith("const "):
        c = s[6:].strip()
        if "promoted[" in c:
            return promoted(ctx, c)
        if re.match(r"^[\w:]+::\w+$", c) and c.split("::")[-2] in ctx.enums:
            return ctx.enum_const(c.split("::")[-2], c.split("::")[-1])
        if c.split("::")[-1] in ctx.named_consts:
            return ctx.named_consts[c.split("::")[-1]]
        return ctx.const(c)
    if re.match(r"^_\d+$", s) or s.startswith("("):
        return place_value(ctx, fn, env, s)
    raise Unsupported("operand " + s)


def promoted(ctx, c):
    # e.g. <layouts::de105::De105Key as KeyboardLayout>::map_keycode::promoted[0]  (always &HandleControl::MapLettersToUnicode here)
    m = re.search(r"<(?:[\w:]*::)?(\w+) as \w+>::(\w+)::promoted\[(\d+)\]", c) or re.search(r"(\w+)::(\w+)::promoted\[(\d+)\]", c)
    if not m:
        raise Unsupported("promoted " + c)
    key = (m.group(1), m.group(2), int(m.group(3)))
    pv = ctx.promoted.get(key) or ctx.promoted.get(("fn", m.group(2), int(m.group(3))))
    if pv is None:
        raise Unsupported("unknown promoted constant %s" % (key,))
    return pv


BINOPS = {"BitAnd": "bvand", "BitOr": "bvor", "BitXor": "bvxor", "Add": "bvadd", "Sub": "bvsub", "Mul": "bvmul",
          "Shr": "bvlshr", "Shl": "bvshl", "Rem": "bvurem", "Div": "bvudiv"}
CMPS = {"Eq": "=", "Ne": "distinct", "Lt": "bvult", "Le": "bvule", "Gt": "bvugt", "Ge": "bvuge"}


def rvalue(ctx, fn, env, s, dest_ty=None):
    s = s.strip()
    if s.startswith("no_retag "):
        s = s[9:].strip()
    m = re.match(r"^(\w+)\((.*)\)$", s)
    if m and m.group(1) in BINOPS or (m and m.group(1) in CMPS):
        a, b = [operand(ctx, fn, env, x) for x in split_top(m.group(2))]
        op = m.group(1)
        if a.kind == "bool" and b.kind == "bool":
            t = {"BitAnd": "(and %s %s)", "BitOr": "(or %s %s)", "BitXor": "(xor %s %s)", "Eq": "(= %s %s)", "Ne": "(distinct %s %s)"}.get(op)
            if not t:
                raise Unsupported("bool op " + op)
            return V("bool", term=t % (a.term, b.term))
        if a.kind != "bv" or b.kind != "bv":
            raise Unsupported("binop on %s,%s" % (a.kind, b.kind))
        bt = mk_ext(b.term, b.w, a.w)  # shifts: the amount has its own width
        if op in BINOPS:
            return V("bv", term=mk_bin(BINOPS[op], a.term, bt, a.w), w=a.w)
        return V("bool", term=mk_cmp(CMPS[op], a.term, bt))
    m = re.match(r"^(Add|Sub)WithOverflow\((.*)\)$", s)
    if m:
        a, b = [operand(ctx, fn, env, x) for x in split_top(m.group(2))]
        w = a.w
        ea, eb = mk_ext(a.term, w, w + 1), mk_ext(b.term, w, w + 1)
        if m.group(1) == "Add":
            wide = mk_bin("bvadd", ea, eb, w + 1)
            ovf = mk_cmp("bvugt", wide, bvc((1 << w) - 1, w + 1))
            res = mk_bin("bvadd", a.term, b.term, w)
        else:
            ovf = mk_cmp("bvult", a.term, b.term)
            res = mk_bin("bvsub", a.term, b.term, w)
        return V("struct", ty="tuple", fields=[V("bv", term=res, w=w), V("bool", term=ovf)])
    m = re.match(r"^Not\((.*)\)$", s)
    if m:
        a = operand(ctx, fn, env, m.group(1))
        if a.kind == "bool":
            return V("bool", term=mk_not(a.term))
        return V("bv", term="(bvnot %s)" % a.term, w=a.w)
    m = re.match(r"^(.*) as (\w+) \((IntToInt|Transmute)\)$", s)
    if m:
        a = operand(ctx, fn, env, m.group(1))
        w = WIDTH.get(m.group(2))
        if w is None:
            raise Unsupported("cast to " + m.group(2))
        if a.kind == "bool":
            return V("bv", term="(ite %s %s %s)" % (a.term, bvc(1, w), bvc(0, w)), w=w)
        if a.kind == "enum":
            a = V("bv", term=a.tag, w=16)
        return V("bv", term=mk_ext(a.term, a.w, w), w=w)
    m = re.match(r"^discriminant\((.*)\)$", s)
    if m:
        v = place_value(ctx, fn, env, m.group(1))
        if v.kind != "enum":
            raise Unsupported("discriminant of " + v.kind)
        lit = re.match(r"^\(_ bv(\d+) 16\)$", v.tag)
        if lit:
            return V("bv", term=bvc(int(lit.group(1)), 64), w=64)
        return V("bv", term="((_ zero_extend 48) %s)" % v.tag, w=64)
    m = re.match(r"^&(?:mut )?(.*)$", s)
    if m:
        return V("ref", target=place_value(ctx, fn, env, m.group(1)))
    if s.startswith("copy ") or s.startswith("move ") or s.startswith("const "):
        return operand(ctx, fn, env, s)
    m = re.match(r"^\((.*)\)$", s)
    if m and "," in m.group(1):  # tuple
        return V("struct", ty="tuple", fields=[operand(ctx, fn, env, x) for x in split_top(m.group(1))])
    m = re.match(r"^(?:[\w]+::)*(\w+) \{ (.*) \}$", s)
    if m:  # struct literal, fields in declaration order
        fields = []
        for part in split_top(m.group(2)):
            fields.append(operand(ctx, fn, env, part.split(": ", 1)[1]))
        return V("struct", ty=m.group(1), fields=fields)
    # enum constructors
    m = re.match(r"^(?:[\w]+::)*(\w+)(?:::<.*?>)?::(\w+)(?:\((.*)\))?$", s)
    if m and m.group(1) in ctx.enums:
        pl = [operand(ctx, fn, env, x) for x in split_top(m.group(3))] if m.group(3) else []
        return ctx.enum_const(m.group(1), m.group(2), pl)
    m = re.match(r"^(?:[\w]+::)*(\w+)$", s)
    if m:
        return V("struct", ty=m.group(1), fields=[])
    raise Unsupported("rvalue " + s)


def call(ctx, callee, argv, depth, heap=None):
    """Paths of a call: (condition, value, environment-with-heap-slots)."""
    return [(r[0], r[1], r[2] if len(r) > 2 else {}) for r in _call(ctx, callee, argv, depth, heap or {})]


def _call(ctx, callee, argv, depth, heap):
    callee = callee.strip()
    m = re.match(r"^<Result<.*> as Try>::branch$", callee)
    if m:
        r = argv[0]
        if r.kind == "enum" and r.payload:
            var = list(r.payload.keys())[0]
            if var == "Ok":
                return [("true", ctx.enum_const("ControlFlow", "Continue", r.payload[var]))]
            return [("true", ctx.enum_const("ControlFlow", "Break", [ctx.enum_const("Result", "Err", r.payload[var])]))]
        raise Unsupported("Try::branch on a value of unknown variant")
    if re.match(r"^<Result<.*> as FromResidual<.*>>::from_residual$", callee):
        r = argv[0]
        if r.kind == "enum" and list(r.payload.keys()) == ["Err"]:
            return [("true", ctx.enum_const("Result", "Err", r.payload["Err"]))]
        raise Unsupported("from_residual on a non-Err value")
    if re.match(r"^<L as (?:[\w]+::)*KeyboardLayout>::map_keycode$", callee) and ctx.generic_layout is not None:
        return [("true", ctx.generic_layout(argv))]
    # modelled core functions
    if callee == "core::num::<impl u8>::count_ones":
        a = argv[0]
        t = " ".join("((_ zero_extend 31) ((_ extract %d %d) %s))" % (i, i, a.term) for i in range(8))
        return [("true", V("bv", term="(bvadd %s)" % t, w=32))]
    m1 = re.match(r"^char::methods::<impl char>::(\w+)$", callee)
    if m1 and argv:
        a = argv[0].target if argv[0].kind == "ref" else argv[0]
        if a.kind == "bv" and a.w == 32:
            c = a.term
            lo = "(and (bvuge %s #x00000061) (bvule %s #x0000007a))" % (c, c)
            up = "(and (bvuge %s #x00000041) (bvule %s #x0000005a))" % (c, c)
            name = m1.group(1)
            if name == "to_ascii_uppercase":
                return [("true", V("bv", term="(ite %s (bvsub %s #x00000020) %s)" % (lo, c, c), w=32))]
            if name == "to_ascii_lowercase":
                return [("true", V("bv", term="(ite %s (bvadd %s #x00000020) %s)" % (up, c, c), w=32))]
            if name == "is_ascii_lowercase":
                return [("true", V("bool", term=lo))]
            if name == "is_ascii_uppercase":
                return [("true", V("bool", term=up))]
            if name == "is_ascii_alphabetic":
                return [("true", V("bool", term="(or %s %s)" % (lo, up)))]
            if name == "is_ascii":
                return [("true", V("bool", term="(bvule %s #x0000007f)" % c))]
    if callee == "<bool as Default>::default":
        return [("true", V("bool", term="false"))]
    m0 = re.match(r"^<(\w+) as Clone>::clone$", callee)
    if m0 and argv and (argv[0].target if argv[0].kind == "ref" else argv[0]).kind in ("enum", "bool", "bv"):
        return [("true", argv[0].target if argv[0].kind == "ref" else argv[0])]
    if callee in ("<u8 as Into<char>>::into", "<char as From<u8>>::from"):
        return [("true", V("bv", term="((_ zero_extend 24) %s)" % argv[0].term, w=32))]
    m = re.match(r"^<&?(\w+) as PartialEq>::(eq|ne)$", callee)
    if m and m.group(1) in ctx.enums and not any(ctx.enums[m.group(1)] == [] for _ in [0]):
        a, b = [x.target if x.kind == "ref" else x for x in argv]
        a = a.target if a.kind == "ref" else a
        b = b.target if b.kind == "ref" else b
        if a.kind == "enum" and b.kind == "enum" and m.group(1) in ("HandleControl", "KeyCode", "KeyState", "Error"):
            t = "(= %s %s)" % (a.tag, b.tag)
            return [("true", V("bool", term=t if m.group(2) == "eq" else "(not %s)" % t))]
    # crate functions
    m = re.match(r"^<(?:[\w]+::)*(&?\w+) as (?:[\w]+::)*(\w+)>::(\w+)$", callee)
    if m:
        if m.group(3) == "map_keycode" and ctx.summarize is not None and m.group(1) in ctx.unit_structs:
            # compositional: a pure callee with a summary (its own MIR, executed separately) is applied
            # to the actual argument terms instead of being inlined again
            name = ctx.summarize(m.group(1))
            if name:
                k, mods, h = argv[1], argv[2], argv[3]
                while mods.kind == "ref":
                    mods = mods.target
                if k.kind == "enum" and h.kind == "enum" and mods.kind == "struct" and len(mods.fields) == 9:
                    a = "%s %s %s" % (k.tag, " ".join(to_bool(x) for x in mods.fields), h.tag)
                    return [("true", V("decoded_sym", tag="(%s_tag %s)" % (name, a), raw="(%s_raw %s)" % (name, a), uni="(%s_uni %s)" % (name, a)))]
        f = ctx.find(m.group(1), m.group(3))
        return execute_full(ctx, f, argv, depth + 1, heap)
    m = re.match(r"^(?:[\w]+::)*(\w+)::(\w+)$", callee)
    if m:
        try:
            f = ctx.find(m.group(1), m.group(2))
        except Unsupported:
            f = ctx.find("fn", m.group(2))  # module::free_function
        return execute_full(ctx, f, argv, depth + 1, heap)
    if re.match(r"^\w+$", callee):
        return execute_full(ctx, ctx.find("fn", callee), argv, depth + 1, heap)
    raise Unsupported("call to " + callee)


# ------------------------------------------------------------------------------------------------
# symbolic arguments and function summaries
# ------------------------------------------------------------------------------------------------

MOD_FIELDS = ["lshift", "rshift", "lctrl", "rctrl", "numlock", "capslock", "lalt", "ralt", "rctrl2"]


def sym_mods(prefix):
    return V("struct", ty="Modifiers", fields=[V("bool", term="%s_%s" % (prefix, f)) for f in MOD_FIELDS])


def mods_decls(prefix):
    return ["(declare-const %s_%s Bool)" % (prefix, f) for f in MOD_FIELDS]


def sym_enum(ctx, ty, name):
    return V("enum", ty=ty, tag=name, payload={})


def flatten(ctx, paths, kind):
    """ite-chain of a path list. kind: 'decoded' -> (tag, raw, uni); 'result_key' -> (tag, ok, err);
    'result_u8' -> (tag, ok, err); 'bool' -> term.  Also returns the disjunction of panic conditions."""
    panic = [c for c, v in paths if isinstance(v, tuple)]
    good = [(c, v) for c, v in paths if not isinstance(v, tuple)]
    if not good:
        raise Unsupported("no normal path")

    def chain(parts):
        t = parts[-1][1]
        for c, x in reversed(parts[:-1]):
            t = "(ite %s %s %s)" % (c, x, t)
        return t
    if kind == "bool":
        return chain([(c, to_bool(v)) for c, v in good]), panic
    if kind == "decoded":
        trip = []
        for c, v in good:
            if v.kind == "decoded_sym":
                trip.append((c, v.tag, v.raw, v.uni))
            elif v.kind == "enum" and v.payload:
                var = list(v.payload.keys())[0]
                pl = v.payload[var]
                trip.append((c, v.tag, pl[0].tag if var == "RawKey" else bvc(0, 16), pl[0].term if var == "Unicode" else bvc(0, 32)))
            else:
                raise Unsupported("expected DecodedKey result")
        return (chain([(c, t) for c, t, _, _ in trip]), chain([(c, r) for c, _, r, _ in trip]), chain([(c, u) for c, _, _, u in trip])), panic
    comps = []
    for c, v in good:
        if v.kind != "enum":
            raise Unsupported("expected enum result")
        variant = list(v.payload.keys())[0] if v.payload else None
        pl = v.payload.get(variant, []) if variant else []
        comps.append((c, v.tag, pl, variant))
    tag = chain([(c, t) for c, t, _, _ in comps])
    if kind == "decoded":
        raw = chain([(c, (pl[0].tag if var == "RawKey" else bvc(0, 16))) for c, _, pl, var in comps])
        uni = chain([(c, (pl[0].term if var == "Unicode" else bvc(0, 32))) for c, _, pl, var in comps])
        return (tag, raw, uni), panic
    if kind == "result_key":
        ok = chain([(c, (pl[0].tag if var == "Ok" else bvc(0, 16))) for c, _, pl, var in comps])
        err = chain([(c, (pl[0].tag if var == "Err" else bvc(0, 16))) for c, _, pl, var in comps])
        return (tag, ok, err), panic
    if kind == "result_u8":
        ok = chain([(c, (pl[0].term if var == "Ok" else bvc(0, 8))) for c, _, pl, var in comps])
        err = chain([(c, (pl[0].tag if var == "Err" else bvc(0, 16))) for c, _, pl, var in comps])
        return (tag, ok, err), panic
    raise Unsupported(kind)


# ------------------------------------------------------------------------------------------------
# solvers
# ------------------------------------------------------------------------------------------------

SOLVERS = [("z3", ["/usr/bin/z3", "-in", "-smt2"]), ("cvc5", ["cvc5", "--lang", "smt2", "--incremental"])]


def _parse_solver_output(res):
    out = {}
    cur = None
    stage = None
    for line in res.splitlines():
        line = line.strip().strip('"')
        if line.startswith("Q "):
            cur = line[2:]
            out[cur] = ["unknown", ""]
            stage = "ans"
        elif line == "M":
            stage = "model"
        elif line == "E":
            stage = None
        elif cur and stage == "ans" and line in ("sat", "unsat", "unknown"):
            out[cur][0] = line
        elif cur and stage == "ans" and line.startswith("(error"):
            out[cur][0] = "error"
            out[cur][1] += line
        elif cur and stage == "model":
            if not (line.startswith("(error") and out[cur][0] != "sat"):
                out[cur][1] += line + " "
    return out


def run_queries(decls, queries, timeout=600, mode="both"):
    """queries: list of (name, [assertions], [terms to get-value]) each expected UNSAT.  One incremental
    process per solver (push/pop), both solvers running concurrently.  mode "both": wait for both
    (thorough tier: the answers must agree); mode "first": stop as soon as one solver has answered every
    query (quick tier).  Returns {name: {solver: [answer, model]}}, per-solver wall times, script size."""
    import threading
    script = ["(set-logic ALL)", "(set-option :produce-models true)"] + decls
    for name, asserts, getvals in queries:
        script.append("(push 1)")
        for a in asserts:
            script.append("(assert %s)" % a)
        script.append('(echo "Q %s")' % name)
        script.append("(check-sat)")
        script.append('(echo "M")')
        if getvals:
            script.append("(get-value (%s))" % " ".join(getvals))  # errors after unsat are filtered
        script.append('(echo "E")')
        script.append("(pop 1)")
    text = "\n".join(script) + "\n"
    procs, outs, times = {}, {}, {}
    done = threading.Event()

    def worker(sname, cmd):
        t0 = time.time()
        try:
            p = subprocess.Popen(cmd, stdin=subprocess.PIPE, stdout=subprocess.PIPE, stderr=subprocess.STDOUT, text=True)
            procs[sname] = p
            o, _ = p.communicate(text, timeout=timeout)
        except subprocess.TimeoutExpired:
            p.kill()
            o = ""
        except Exception:
            o = ""
        times[sname] = round(time.time() - t0, 3)
        outs[sname] = _parse_solver_output(o or "")
        if len(outs[sname]) == len(queries) and all(v[0] in ("sat", "unsat") for v in outs[sname].values()):
            done.set()
    ths = [threading.Thread(target=worker, args=sc) for sc in SOLVERS]
    for t in ths:
        t.start()
    if mode == "first":
        while any(t.is_alive() for t in ths) and not done.is_set():
            time.sleep(0.1)
        if done.is_set():
            for p in procs.values():
                if p.poll() is None:
                    p.kill()
    for t in ths:
        t.join()
    res = {}
    for sname, o in outs.items():
        for q, v in o.items():
            res.setdefault(q, {})[sname] = v
    return res, times, len(text)
