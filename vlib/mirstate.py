"""Second engine, stateful part: one symbolic step of the real decoders from concrete canonical states,
executed from the MIR of /repo's current tree (see mirsmt.py).

  C01 / C02   every (prefix context, symbolic byte) transition of ScancodeSet2 / ScancodeSet1::advance_state
              against the reference automaton generated from the oracle tables, including the successor state
  C07         after an event or error the state equals new(); 'no event yet' only for prefix bytes, with the
              pending prefix growing by one
  C06         eleven symbolic bits through Ps2Decoder::add_bit from new(): ten times Ok(None), then exactly the
              reference frame check of the word they spell, and the decoder equals new() again
  C04 / C14   EventDecoder::<L>::process_keyevent from a symbolic modifier record and mode with a symbolic
              event: successor modifiers = the statement's step function, return value = none / own raw key /
              PauseBreak / what the (uninterpreted) layout returns for (key, current modifiers, current mode)

States are obtained by *executing* new() and the prefix bytes (so a change of private representation is
followed automatically); state identity is structural equality of the resulting values.
"""
import json
import os

from . import gen
from . import mirsmt as M
from .mirsmt import V, bvc, Unsupported, mk_cmp, mk_not, conj

SET2_PREFIX = [[], [0xE0], [0xF0], [0xE0, 0xF0], [0xE1], [0xE1, 0xF0]]
SET2_DEPTH = [0, 1, 1, 2, 1, 2]
SET1_PREFIX = [[], [0xE0], [0xE1]]


def disj(ts):
    ts = [t for t in ts if t != "false"]
    if any(t == "true" for t in ts):
        return "true"
    if not ts:
        return "false"
    return "(or %s)" % " ".join(ts) if len(ts) > 1 else ts[0]


def veq(a, b):
    """Structural equality of two values as an SMT Bool term (folds to true/false on concrete structure)."""
    if isinstance(a, tuple) or isinstance(b, tuple):
        return "false"
    if a.kind == "ref" and b.kind == "ref":
        return "true"
    if a.kind != b.kind and not ({a.kind, b.kind} <= {"enum"}):
        if {a.kind, b.kind} == {"enum", "decoded_sym"}:
            e, d = (a, b) if a.kind == "enum" else (b, a)
            var = list(e.payload.keys())[0] if e.payload else None
            pl = e.payload.get(var, [])
            t = mk_cmp("=", e.tag, d.tag)
            if var == "RawKey":
                return conj(t, mk_cmp("=", pl[0].tag, d.raw))
            if var == "Unicode":
                return conj(t, mk_cmp("=", pl[0].term, d.uni))
            return t
        return "false"
    if a.kind == "bool":
        if a.term == b.term:
            return "true"
        if {a.term, b.term} == {"true", "false"}:
            return "false"
        return "(= %s %s)" % (a.term, b.term)
    if a.kind == "bv":
        return mk_cmp("=", a.term, b.term) if a.term != b.term else "true"
    if a.kind == "decoded_sym":
        return conj(conj(mk_cmp("=", a.tag, b.tag), mk_cmp("=", a.raw, b.raw)), mk_cmp("=", a.uni, b.uni))
    if a.kind == "struct":
        if len(a.fields) != len(b.fields):
            return "false"
        t = "true"
        for x, y in zip(a.fields, b.fields):
            t = conj(t, veq(x, y))
        return t
    if a.kind == "enum":
        t = mk_cmp("=", a.tag, b.tag) if a.tag != b.tag else "true"
        if t == "false":
            return "false"
        if a.payload and b.payload:
            va, vb = list(a.payload.keys())[0], list(b.payload.keys())[0]
            if va != vb:
                return "false"
            for x, y in zip(a.payload[va], b.payload[vb]):
                t = conj(t, veq(x, y))
        return t
    raise Unsupported("equality of " + a.kind)


def single(paths, what):
    ok = [p for p in paths if p[0] != "false" and not isinstance(p[1], tuple)]
    if len(paths) != 1 or len(ok) != 1 or ok[0][0] != "true":
        raise Unsupported("%s: expected exactly one unconditional path, got %d" % (what, len(paths)))
    return ok[0]


class Machine:
    """A decoder type driven through the MIR of its public functions."""

    def __init__(self, E, ty):
        self.E, self.ty = E, ty
        f = E.ctx.find(ty, "new")
        self.new = single(M.execute_full(E.ctx, f, []), ty + "::new")[1]

    def step(self, fname, state, args):
        f = self.E.ctx.find(self.ty, fname)
        res = M.execute_full(self.E.ctx, f, [V("ref", target=state)] + args)
        slot = "@0" + f.params[0][0]
        return [(c, r, env.get(slot)) for c, r, env in res if c != "false"]

    def after(self, fname, state, byte):
        c, r, post = single(self.step(fname, state, [V("bv", term=bvc(byte, 8), w=8)]), "%s(%#x)" % (fname, byte))
        return r, post


def scan_result(E, kind, key_term=None, state=None):
    c = E.ctx
    if kind == "none":
        return c.enum_const("Result", "Ok", [c.enum_const("Option", "None")])
    if kind == "err":
        return c.enum_const("Result", "Err", [c.enum_const("Error", "UnknownKeyCode")])
    ev = V("struct", ty="KeyEvent", fields=[V("enum", ty="KeyCode", tag=key_term, payload={}), c.enum_const("KeyState", state)])
    return c.enum_const("Result", "Ok", [c.enum_const("Option", "Some", [ev])])


def oracle_tables(E):
    sc = json.load(open(os.path.join(gen.VERIF, "oracle/scancodes.json")))
    T = {}
    for mod in ("set1", "set2"):
        for pre in ("", "E0", "E1"):
            want = {}
            for row in sc["keys"]:
                if row.get(mod) and row[mod][0] == pre and row["key"] in E.keys:
                    want[row[mod][1]] = row["key"]
            T[(mod, pre)] = want
    return T, sc


def table_terms(E, want, b):
    """(defined?, key term) of an oracle table applied to the byte term b"""
    defined = disj([mk_cmp("=", b, bvc(c, 8)) for c in sorted(want)])
    key = bvc(0, 16)
    for c in sorted(want):
        key = "(ite %s %s %s)" % (mk_cmp("=", b, bvc(c, 8)), E.key(want[c]), key)
    return defined, key


def scancode_queries(E, pid, known_set1):
    """C01 / C02 / C07 at the level of the real automaton."""
    Q = []
    T, sc = oracle_tables(E)
    b = "b"
    bV = V("bv", term=b, w=8)
    for mod, ty, prefixes in (("set2", "ScancodeSet2", SET2_PREFIX), ("set1", "ScancodeSet1", SET1_PREFIX)):
        if pid == "C01" and mod != "set2" or pid == "C02" and mod != "set1":
            continue
        mach = Machine(E, ty)
        states = []
        for pre in prefixes:
            s = mach.new
            for byte in pre:
                r, s = mach.after("advance_state", s, byte)
                if veq(r, scan_result(E, "none")) != "true":
                    raise Unsupported("prefix byte %#x does not give Ok(None) from the canonical state" % byte)
            states.append(s)
        E.functions.append("%s::new + advance_state from %d canonical prefix contexts" % (ty, len(states)))
        for i, st in enumerate(states):
            paths = mach.step("advance_state", st, [bV])
            E.functions.append("%s::advance_state ctx %d: %d paths" % (ty, i, len(paths)))
            panic = [c for c, r, _ in paths if isinstance(r, tuple)]
            good = [(c, r, post) for c, r, post in paths if not isinstance(r, tuple)]
            if pid in ("C01", "C02"):
                cases = []  # (condition on b, expected result, expected next context)
                if mod == "set2":
                    pre = ["", "E0", "", "E0", "E1", "E1"][i]
                    brk = i in (2, 3, 5)
                    defined, key = table_terms(E, T[("set2", pre)], b)
                    special = []
                    if i == 0:
                        for byte, nxt in ((0xE0, 1), (0xE1, 4), (0xF0, 2)):
                            cases.append((mk_cmp("=", b, bvc(byte, 8)), scan_result(E, "none"), nxt))
                            special.append(mk_cmp("=", b, bvc(byte, 8)))
                        for byte, kn in ((0x00, "TooManyKeys"), (0xAA, "PowerOnTestOk")):
                            cases.append((mk_cmp("=", b, bvc(byte, 8)), scan_result(E, "ev", E.key(kn), "SingleShot"), 0))
                            special.append(mk_cmp("=", b, bvc(byte, 8)))
                        special.append(mk_cmp("=", b, bvc(0x84, 8)))  # lenient cell
                    elif i in (1, 4):
                        cases.append((mk_cmp("=", b, bvc(0xF0, 8)), scan_result(E, "none"), 3 if i == 1 else 5))
                        special.append(mk_cmp("=", b, bvc(0xF0, 8)))
                    elif i == 2:
                        special += [mk_cmp("=", b, bvc(x, 8)) for x in (0x00, 0xAA, 0x84)]  # unconstrained / lenient
                    rest = mk_not(disj(special))
                    cases.append((conj(rest, defined), scan_result(E, "ev", key, "Up" if brk else "Down"), 0))
                    cases.append((conj(rest, mk_not(defined)), scan_result(E, "err"), 0))
                    excl = "true"
                else:
                    pre = ["", "E0", "E1"][i]
                    code = "(bvand b #x7f)"
                    defined, key = table_terms(E, T[("set1", pre)], code)
                    up = "(= ((_ extract 7 7) b) #b1)"
                    special = []
                    if i == 0:
                        cases.append((mk_cmp("=", b, bvc(0xE0, 8)), scan_result(E, "none"), 1))
                        cases.append((mk_cmp("=", b, bvc(0xE1, 8)), scan_result(E, "none"), 2))
                        special = [mk_cmp("=", b, bvc(0xE0, 8)), mk_cmp("=", b, bvc(0xE1, 8))]
                    rest = mk_not(disj(special))
                    cases.append((conj(conj(rest, defined), up), scan_result(E, "ev", key, "Up"), 0))
                    cases.append((conj(conj(rest, defined), mk_not(up)), scan_result(E, "ev", key, "Down"), 0))
                    cases.append((conj(rest, mk_not(defined)), scan_result(E, "err"), 0))
                    excl = "true"
                    for (cx, byte) in sorted(known_set1):
                        if cx == i:
                            excl = conj(excl, mk_not(mk_cmp("=", b, bvc(byte, 8))))
                bad = list(panic)
                for c, r, post in good:
                    for cc, exp, nxt in cases:
                        ok = conj(veq(r, exp), veq(post, states[nxt]))
                        if ok != "true":
                            bad.append(conj(conj(c, cc), mk_not(ok)))
                Q.append((pid, "automaton_%s_ctx%d_equals_reference" % (mod, i), [excl, disj(bad)], ["b"]))
            if pid == "C07":
                none = scan_result(E, "none")
                depth = (SET2_DEPTH if mod == "set2" else [0, 1, 1])[i]
                maxd = 2 if mod == "set2" else 1
                deeper = [s for j, s in enumerate(states) if (SET2_DEPTH if mod == "set2" else [0, 1, 1])[j] == depth + 1]
                bad = list(panic)
                for c, r, post in good:
                    is_none = veq(r, none)
                    back = veq(post, mach.new)
                    grows = disj([veq(post, s) for s in deeper]) if depth < maxd else "false"
                    ok = "(ite %s %s %s)" % (is_none, grows, back) if is_none not in ("true", "false") else (grows if is_none == "true" else back)
                    if ok != "true":
                        bad.append(conj(c, mk_not(ok)))
                Q.append(("C07", "resync_%s_ctx%d" % (mod, i), [disj(bad)], ["b"]))
    return Q


def frame_queries(E):
    """C06: eleven symbolic bits through add_bit from new()."""
    mach = Machine(E, "Ps2Decoder")
    st = mach.new
    none = E.ctx.enum_const("Result", "Ok", [E.ctx.enum_const("Option", "None")])
    decls = ["(declare-const bit%d Bool)" % i for i in range(11)]
    bad = []
    pathcond = "true"
    for i in range(10):
        paths = mach.step("add_bit", st, [V("bool", term="bit%d" % i)])
        good = [(c, r, p) for c, r, p in paths if not isinstance(r, tuple)]
        bad += [conj(pathcond, c) for c, r, p in paths if isinstance(r, tuple)]
        if len(good) != 1:
            raise Unsupported("add_bit forks before the 11th bit (%d paths at bit %d)" % (len(good), i))
        c, r, st = good[0]
        ok = veq(r, none)
        if ok != "true":
            bad.append(conj(pathcond, mk_not(ok)))
    paths = mach.step("add_bit", st, [V("bool", term="bit10")])
    E.functions.append("Ps2Decoder::new + add_bit x11 (%d paths at the 11th bit) + check_word" % len(paths))
    # yardstick: whole-word decoding of the same bits by the real add_word (C06 fixes no error value; C05 owns the rule)
    w = "(concat #b00000 %s)" % " ".join("(ite bit%d #b1 #b0)" % i for i in range(10, -1, -1))
    fw = E.ctx.find("Ps2Decoder", "add_word")
    wpaths = M.execute_full(E.ctx, fw, [V("ref", target=mach.new), V("bv", term=w, w=16)])
    for c, r, post in paths:
        if isinstance(r, tuple):
            bad.append(c)
            continue
        back = veq(post, mach.new)
        for cw, rw, _ in wpaths:
            if isinstance(rw, tuple):
                bad.append(conj(c, cw))
                continue
            var = list(rw.payload.keys())[0]
            exp = E.ctx.enum_const("Result", "Ok", [E.ctx.enum_const("Option", "Some", rw.payload["Ok"])]) if var == "Ok" else rw
            ok = conj(veq(r, exp), back)
            if ok != "true":
                bad.append(conj(conj(c, cw), mk_not(ok)))
    return decls, [("C06", "eleven_bits_from_new_equal_frame_check_and_reset", [disj(bad)], ["bit%d" % i for i in range(11)])]


def event_queries(E, pid):
    """C04 (modifier step) and C14 (what is returned) on EventDecoder::<L>::process_keyevent."""
    ctx = E.ctx
    MODS = M.MOD_FIELDS
    decls = ["(declare-fun spy_tag (%s) (_ BitVec 16))" % " ".join(["(_ BitVec 16)"] + ["Bool"] * 9 + ["(_ BitVec 16)"]),
             "(declare-fun spy_raw (%s) (_ BitVec 16))" % " ".join(["(_ BitVec 16)"] + ["Bool"] * 9 + ["(_ BitVec 16)"]),
             "(declare-fun spy_uni (%s) (_ BitVec 32))" % " ".join(["(_ BitVec 16)"] + ["Bool"] * 9 + ["(_ BitVec 16)"]),
             "(declare-const s (_ BitVec 16))"]

    def spy(argv):
        k, mods, h = argv[1], argv[2], argv[3]
        while mods.kind == "ref":
            mods = mods.target
        a = "%s %s %s" % (k.tag, " ".join(M.to_bool(x) for x in mods.fields), h.tag)
        return V("decoded_sym", tag="(spy_tag %s)" % a, raw="(spy_raw %s)" % a, uni="(spy_uni %s)" % a)
    ctx.generic_layout = spy
    try:
        f = ctx.find("EventDecoder", "process_keyevent")
        mods = M.sym_mods("m")
        st = V("struct", ty="EventDecoder", fields=[M.sym_enum(ctx, "HandleControl", "h"), mods, V("struct", ty="L", fields=[])])
        ev = V("struct", ty="KeyEvent", fields=[M.sym_enum(ctx, "KeyCode", "k"), M.sym_enum(ctx, "KeyState", "s")])
        res = M.execute_full(ctx, f, [V("ref", target=st), ev])
    finally:
        ctx.generic_layout = None
    slot = "@0" + f.params[0][0]
    E.functions.append("EventDecoder::<L>::process_keyevent (%d paths, layout uninterpreted)" % len(res))
    KS = E.enums["KeyState"]
    down, up = "(= s %s)" % bvc(KS.index("Down"), 16), "(= s %s)" % bvc(KS.index("Up"), 16)
    dom = ["(bvult k %s)" % bvc(len(E.keys), 16), "(bvult h %s)" % bvc(2, 16), "(bvult s %s)" % bvc(3, 16)]

    def isk(n):
        return "(= k %s)" % E.key(n)
    held = {"lshift": "LShift", "rshift": "RShift", "lctrl": "LControl", "rctrl": "RControl", "lalt": "LAlt", "ralt": "RAltGr", "rctrl2": "RControl2"}
    spec = {}
    for fld in MODS:
        cur = "m_" + fld
        if fld in held:
            spec[fld] = "(ite (and %s %s) true (ite (and %s %s) false %s))" % (isk(held[fld]), down, isk(held[fld]), up, cur)
        elif fld == "capslock":
            spec[fld] = "(ite (and %s %s) (not %s) %s)" % (isk("CapsLock"), down, cur, cur)
        else:
            spec[fld] = "(ite (and %s %s (not m_rctrl2)) (not %s) %s)" % (isk("NumpadLock"), down, cur, cur)
    modkeys = list(held.values()) + ["CapsLock", "NumpadLock"]
    is_mod = "(or %s)" % " ".join(isk(n) for n in modkeys)
    bad = []
    for c, r, env in res:
        if c == "false":
            continue
        if isinstance(r, tuple):
            bad.append(c)
            continue
        post = env[slot]
        if pid == "C04":
            pm = post.fields[1]
            ok = conj(veq(post.fields[0], st.fields[0]), "true")
            for i, fld in enumerate(MODS):
                t = M.to_bool(pm.fields[i])
                ok = conj(ok, "(= %s %s)" % (t, spec[fld]))
            bad.append(conj(c, mk_not(ok)))
        else:
            none = ctx.enum_const("Option", "None")
            some = lambda d: ctx.enum_const("Option", "Some", [d])
            rawk = lambda kt: ctx.enum_const("DecodedKey", "RawKey", [V("enum", ty="KeyCode", tag=kt, payload={})])
            exp_layout = spy([None, ev.fields[0], mods, st.fields[0]])
            cases = [(mk_not(down), none),
                     ("(and %s %s m_rctrl2)" % (down, isk("NumpadLock")), some(rawk(E.key("PauseBreak")))),
                     ("(and %s %s (not (and %s m_rctrl2)))" % (down, is_mod, isk("NumpadLock")), some(rawk("k"))),
                     ("(and %s (not %s))" % (down, is_mod), some(exp_layout))]
            for cc, exp in cases:
                ok = veq(r, exp)
                if ok != "true":
                    bad.append(conj(conj(c, cc), mk_not(ok)))
    name = "modifier_step_all_states" if pid == "C04" else "dispatch_all_states"
    return decls, [(pid, name, dom + [disj(bad)], ["k", "s", "h"] + ["m_" + x for x in MODS])]
