"""Per-property configuration: harness filters per tier, what is encoded, bounds, assumptions."""

TRUSTED_BASE = [
    "Kani 0.68.0 MIR->goto translation (dev profile, overflow checks and debug assertions on) and its models of core (count_ones, char::from_u32, derived PartialEq/Clone)",
    "CBMC 6.11.0 symbolic execution, bit-blasting and unwinding assertions; CaDiCaL SAT solver (Kissat as second opinion in the thorough tier)",
    "reference models in /verif/harness/src/refmodel.rs and oracles in /verif/oracle/*.json (validated natively against the repository's own test vectors on every run)",
    "derived structural equality/clone supplied by the verif-hooks feature (no hand-written impls)",
    "pen-and-paper induction step: closure of the canonical state family + one symbolic step => all streams/histories (DESIGN.md section 1)",
]

COMMON_OUTSIDE = "every harness loop has a concrete trip count <= 13 (C12: number of keys); harnesses run with unwind bound 24 and unwinding assertions on, and a harness whose only failures are unwinding assertions is re-run with bound 300, so a loop inside the real code (e.g. a table search introduced by a refactoring) is either fully unrolled or reported as inconclusive, never silently truncated; outside the claim: release-profile codegen beyond native replay, non-host targets, timing, stack usage"

P = {}


def prop(pid, **kw):
    kw.setdefault("quick", [pid.lower() + "_q"])
    kw.setdefault("thorough", [pid.lower() + "_q", pid.lower() + "_t"])
    kw.setdefault("assumptions", [])
    kw.setdefault("samples", None)
    kw.setdefault("graph", None)
    P[pid] = kw


prop("C01",
     title="Set 2 byte streams decode to exactly the standard key events",
     encoded=["ScancodeSet2::advance_state", "ScancodeSet2::map_scancode", "ScancodeSet2::map_extended_scancode",
              "ScancodeSet2::map_extended2_scancode", "ScancodeSet2::new", "Keyboard::add_byte"],
     bounds="symbolic byte (256 values) in each of the 6 canonical prefix contexts = all 1536 transitions; no loops in the code; "
            "thorough: 4 symbolic bytes from new() = all 2^32 streams of length 4 (harness loop of 4)",
     assumptions=["Set 2 code 0x84 may decode as UnknownKeyCode or SysRq (references disagree)",
                  "break form of a status byte (F0 00, F0 AA) is unconstrained",
                  "a prefix byte (E0/E1/F0) in a non-prefix position is an undefined code"],
     samples="set2", graph="set2")
prop("C02",
     title="Set 1 byte streams decode to exactly the standard key events",
     encoded=["ScancodeSet1::advance_state", "ScancodeSet1::map_scancode", "ScancodeSet1::map_extended_scancode",
              "ScancodeSet1::map_extended2_scancode", "ScancodeSet1::new", "Keyboard::add_byte"],
     bounds="symbolic byte in each of the 3 canonical prefix contexts = all 768 transitions; thorough: 4 symbolic bytes from new()",
     assumptions=["open known findings of /verif/known_findings.json are excluded by kani::assume and re-tested concretely"],
     samples="set1", graph="set1")
prop("C03",
     title="Each layout types the characters of the national layout it is named after",
     encoded=["<layout>::map_keycode for the ten layouts", "Modifiers::is_shifted/is_ctrl/is_altgr/is_caps", "AnyLayout::map_keycode (thorough)"],
     bounds="symbolic key (every KeyCode variant), 9 symbolic modifier flags, symbolic Ctrl mode; one query per layout; no loops",
     assumptions=["bare-layout quick harness: CapsLock off; wrapper and thorough harnesses: CapsLock symbolic, where a letter cell may show either of its two legends (which one is C10's business)",
                  "Ctrl not being mapped: not (mode == MapLettersToUnicode and a Ctrl key held)",
                  "Shift+AltGr together carries no expectation",
                  "oracle cells with several acceptable characters where published references disagree (DESIGN.md section 4)"],
     samples="map")
prop("C04",
     title="Reported modifier state is exactly the history of modifier key events",
     encoded=["EventDecoder::process_keyevent", "EventDecoder::new", "Keyboard::process_keyevent", "Keyboard::get_modifiers", "Keyboard::new"],
     bounds="all 512 modifier records x 2 modes (each reached from new() by <= 9 presses) x every key x 3 key states in one query; "
            "thorough: 3 symbolic events from new() against the statement's most-recent-event/parity reading ",
     samples="modstep", graph="event")
prop("C05",
     title="PS/2 frames: accepted iff start=0, stop=1, odd parity; yield the data byte",
     encoded=["Ps2Decoder::add_word", "Ps2Decoder::check_word", "Ps2Decoder::get_bit", "Ps2Decoder::has_even_number_bits", "Keyboard::add_word"],
     bounds="all 2048 11-bit words; all 256 bytes x 11 single-bit flips; thorough: all 256 x 110 double-bit flips; reference parity is a 9-step fold",
     assumptions=["words >= 2048 are outside the documented packing (covered for panic-freedom by C08)"],
     samples="frame", graph="frame")
prop("C06",
     title="Bit-serial framing equals whole-word decoding; frames are independent",
     encoded=["Ps2Decoder::add_bit", "Ps2Decoder::clear", "Ps2Decoder::add_word", "Ps2Decoder::new", "Keyboard::add_bit", "Keyboard::clear"],
     bounds="11 symbolic bits from new() (all 2048 frames, every partial state on the way); clear() after k <= 10 symbolic bits; "
            "thorough: frame, k bits + clear, frame (all ordered pairs) also through Keyboard; harness loops of 10/11 iterations",
     samples="bits", graph="frame")
prop("C07",
     title="Scancode decoders resynchronise after every event or error",
     encoded=["ScancodeSet1::advance_state", "ScancodeSet2::advance_state"],
     bounds="symbolic byte in each canonical context (6 + 3); thorough: all 4-byte streams from new() in literal stream form",
     samples="set2", graph="set2")
prop("C08",
     title="No operation panics or overflows for any input in any reachable state",
     encoded=["ScancodeSet1::advance_state", "ScancodeSet2::advance_state", "Ps2Decoder::add_bit/add_word/clear", "EventDecoder::process_keyevent",
              "Keyboard::add_bit/add_byte/add_word/process_keyevent/clear", "<layout>::map_keycode x10 (+AnyLayout, &AnyLayout thorough)", "Modifiers::is_*"],
     bounds="every byte x 2 from every canonical context; all 65536 words; 12 bits from every partial-frame state with interleaved clear ; "
            "two events from all 1024 event-decoder states; every key x 512 modifier records x 2 modes per layout",
     assumptions=["reachable states = the canonical families proved closed by C01/C02/C06/C04"],
     samples="frame")
prop("C09",
     title="Ctrl+letter yields U+0001..U+001A for the letter the layout types",
     encoded=["<layout>::map_keycode for the ten layouts", "Modifiers::is_ctrl", "EventDecoder::set_ctrl_handling (thorough)"],
     bounds="symbolic key, 9 symbolic flags, both modes evaluated side by side; one query per layout",
     assumptions=["'letter key' = the layout itself types a..z on it with no modifier held (NumLock in its initial state)",
                  "with an Alt key held Ctrl legitimately forms AltGr, so (i) and (iv) assume no Alt key"],
     samples="map")
prop("C10",
     title="CapsLock inverts Shift on letter keys and affects nothing else",
     encoded=["<layout>::map_keycode for the ten layouts", "Modifiers::is_caps", "Modifiers::is_shifted"],
     bounds="symbolic key, mode, 6 symbolic non-shift/caps flags, symbolic choice of shift key(s); four evaluations related in one query per layout",
     assumptions=["letter key = base output c and shifted output upper_of(c), upper_of defined on a-z and Latin-1 U+00E0..U+00FE except U+00F7"],
     samples="map")
prop("C11",
     title="Layouts see modifiers only as Shift, Ctrl, AltGr, CapsLock and NumLock",
     encoded=["Modifiers::is_shifted/is_ctrl/is_alt/is_altgr/is_caps", "<layout>::map_keycode for the ten layouts"],
     bounds="all 512 records for the predicates; 2-safety over two symbolic records (18 flags) x key x mode per layout",
     samples="map")
prop("C12",
     title="Every printable ASCII character can be typed on every layout",
     encoded=["<layout>::map_keycode for the ten layouts"],
     bounds="symbolic character 0x20..0x7E, both modes; quick: solver verifies a natively found witness table (key, level) for the symbolic "
            "character, falling back to the direct loop for characters without witness; thorough: direct forall-c exists-key-level with a loop "
            "over all keys x 3 levels ",
     assumptions=["levels are: no modifier, left Shift, AltGr alone; NumLock in its initial (on) state"],
     samples="map")
prop("C13",
     title="Set 1 and Set 2 decode consistently under the i8042 translation",
     encoded=["ScancodeSet1::advance_state", "ScancodeSet2::advance_state", "Keyboard::add_byte/process_keyevent (thorough)"],
     bounds="forward: symbolic Set 2 code with a translation x make/break x 3 prefix classes; backward: symbolic Set 1 code < 0x80 x make/break x 3 "
            "prefix classes with a loop over <= 2 preimages ",
     assumptions=["status bytes 00/AA have no translation and are excluded", "open known findings excluded by kani::assume and re-tested concretely"],
     samples="xlat")
prop("C14",
     title="One decoded key per press, none per release, via the current layout and mode",
     encoded=["EventDecoder::process_keyevent", "EventDecoder::set_ctrl_handling", "EventDecoder::get_ctrl_handling", "EventDecoder::change_layout",
              "Keyboard::process_keyevent", "Keyboard::set_ctrl_handling"],
     bounds="all 1024 decoder states, optional symbolic two-event history, optional symbolic reconfiguration (mode and/or layout) immediately before a symbolic "
            "event; recording layout with an injective encoding of (layout tag, key, 9 flags, mode) and a call counter; 'current modifier state' is read "
            "off the decoder itself (probe key on a clone), not predicted",
     samples="modstep", graph="event")
prop("C15",
     title="Numpad follows NumLock; editing keys type the same control chars everywhere",
     encoded=["<layout>::map_keycode for the ten layouts"],
     bounds="symbolic key x 512 modifier records x 2 modes per layout",
     assumptions=["German numpad decimal may be ',' or '.'; Numpad5 with NumLock off may be '5' or RawKey(Numpad5)"],
     samples="map")
prop("C16",
     title="Keys without a character always decode to their own raw key",
     encoded=["<layout>::map_keycode for the ten layouts", "AnyLayout / &AnyLayout (thorough)"],
     bounds="symbolic key x 512 modifier records x 2 modes per layout object",
     samples="map")
prop("C17",
     title="AnyLayout behaves exactly as the layout it wraps",
     encoded=["<AnyLayout as KeyboardLayout>::map_keycode", "<&AnyLayout as KeyboardLayout>::map_keycode", "<layout>::map_keycode x10"],
     bounds="symbolic key x 512 modifier records x 2 modes, one relational query per variant and impl (20)",
     samples="map")
prop("C18",
     title="Keyboard equals its three stages wired in sequence, with stages isolated",
     encoded=["Keyboard::add_bit", "Keyboard::add_word", "Keyboard::add_byte", "Keyboard::process_keyevent", "Keyboard::clear", "Keyboard::set_ctrl_handling",
              "Keyboard::new", "Ps2Decoder::*", "ScancodeSet1/2::advance_state", "EventDecoder::*"],
     bounds="one operation with symbolic argument from the product of: any partial frame (k <= 10 symbolic bits), any canonical prefix context, any of the "
            "1024 event-decoder states; both scancode sets; thorough: 3 symbolic operations from new()",
     samples="set2", graph="all")
prop("C19",
     title="Make/break pairing and one-to-one sequences within each scancode set",
     encoded=["ScancodeSet1::advance_state", "ScancodeSet2::advance_state"],
     bounds="pairing: symbolic code byte per prefix class and set; injectivity: two symbolic (prefix, code) pairs per pair of prefix classes (2-safety)",
     assumptions=["Set 2 unprefixed 00/AA (one-shot status codes) are excluded from the pairing equivalence; sequences that are neither a press nor a release "
                  "(errors, other one-shot events) are not constrained",
                  "E0/E1/F0 (Set 2) are prefixes, not codes; Set 1 codes are < 0x80"],
     samples="set2")

NOT_APPLICABLE = {
    "C20": "decided entirely by rustc's const-checker and trait solver (compile-time type checking of const/static items and Send/Sync bounds): "
           "there is no input, state or history to make symbolic and no assertion for a SAT/SMT solver to discharge, so solver-based checking does not apply",
}
